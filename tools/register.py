#!/usr/bin/env python3
"""register.py <prop> <level-category> -- adds/updates a check entry in MANIFEST.json from harness/meta.json"""
import json,sys
pid=sys.argv[1]
m=json.load(open('/verif/MANIFEST.json'))
meta=json.load(open('/verif/harness/meta.json'))[pid]
chk={"property_id":pid,"quick_cmd":"./check %s --tier quick"%pid,"thorough_cmd":"./check %s --tier thorough"%pid,
 "evidence_file":"/verif/evidence/%s.json"%pid,"replay_cmd_template":"./check %s --replay {path}"%pid,"engine":"gosym",
 "level_claimed":{"category":meta.get("level","model_checking"),"text":meta["claim"],"design_ref":"DESIGN.md §4 "+pid},
 "level_note":meta["note"],
 "technique":meta.get("technique","bounded symbolic execution of the real code from go/ssa; z3 decides each assertion over all values of the symbolic inputs inside the stated bounds; counterexample models replayed natively")}
m['checks']=[c for c in m['checks'] if c['property_id']!=pid]+[chk]
m['checks'].sort(key=lambda c:c['property_id'])
m['not_applicable']=[x for x in m['not_applicable'] if x['property_id']!=pid]
sp=set(m['engines'][0]['serves_properties']); sp.add(pid); m['engines'][0]['serves_properties']=sorted(sp)
json.dump(m,open('/verif/MANIFEST.json','w'),indent=1)
print("registered",pid)
