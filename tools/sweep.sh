#!/bin/bash
# sweep.sh [tier] [ids…]: run every registered check (or the given ones) against /repo and summarise.
TIER="${1:-quick}"; shift
IDS="$@"; [ -z "$IDS" ] && IDS="C01 C02 C03 C04 C05 C06 C07 C08 C09 C10 C11 C12 C13 C14 C15 C16 C17 C18 C19 C20"
cd "$(dirname "$0")/.."
mkdir -p logs
for id in $IDS; do
  s=$(date +%s)
  ./check $id --tier $TIER > logs/$id.$TIER.log 2>&1; rc=$?
  echo "$id $TIER exit=$rc $(( $(date +%s)-s ))s viol=$(grep -c '^VIOLATION' logs/$id.$TIER.log) known=$(grep -c '^KNOWN-FINDING' logs/$id.$TIER.log) inconcl=$(grep -c '^INCONCLUSIVE\|^REDUCED' logs/$id.$TIER.log)"
done
