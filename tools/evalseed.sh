#!/bin/bash
# evalseed.sh <seed-dir> <property> [tier]: apply the seeded change to /repo, run the property's check, undo.
set -u
SEED="$1"; PROP="$2"; TIER="${3:-quick}"
cd /repo || exit 2
if ! git diff --quiet; then echo "/repo has uncommitted changes"; exit 2; fi
git apply "$SEED/patch.diff" || { echo "patch does not apply"; exit 2; }
( cd /verif && ./check "$PROP" --tier "$TIER" ) > "$SEED/check_$PROP.$TIER.log" 2>&1
rc=$?
git -C /repo checkout -- .
echo "seed $(basename $SEED) property $PROP tier $TIER: exit $rc; $(grep -c '^VIOLATION' $SEED/check_$PROP.$TIER.log) violation lines"
grep '^VIOLATION' -A1 "$SEED/check_$PROP.$TIER.log" | head -6
exit 0
