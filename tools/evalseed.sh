#!/bin/bash
# evalseed.sh <seed-dir> <property> [tier]: apply the seeded change to a scratch worktree of /repo's HEAD,
# run the property's check against it (evidence and replay files go to the seed directory), remove the worktree.
set -u
SEED="$1"; PROP="$2"; TIER="${3:-quick}"
WT=/tmp/es_$(basename "$SEED")_$$
git -C /repo worktree add -q --detach "$WT" HEAD || exit 2
trap 'git -C /repo worktree remove --force "$WT" 2>/dev/null' EXIT
git -C "$WT" apply "$SEED/patch.diff" || { echo "patch does not apply"; exit 2; }
mkdir -p "$SEED/eval"
( cd /verif && VERIF_REPO="$WT" VERIF_EVAL_DIR="$SEED/eval" ./check "$PROP" --tier "$TIER" ) > "$SEED/check_$PROP.$TIER.log" 2>&1
rc=$?
rm -rf "$SEED/eval"
echo "seed $(basename $SEED) property $PROP tier $TIER: exit $rc; $(grep -c '^VIOLATION' $SEED/check_$PROP.$TIER.log) violation lines"
grep '^VIOLATION' -A1 "$SEED/check_$PROP.$TIER.log" | head -6
exit 0
