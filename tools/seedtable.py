#!/usr/bin/env python3
# Regenerates the table of DESIGN.md §7.7 from /verif/seeded/*/meta.json.
import json,glob,os,re
rows=[]
for d in sorted(glob.glob('/verif/seeded/*/')):
    m=json.load(open(d+'meta.json'))
    esc=lambda t:str(t).replace('|','\\|').replace('\n',' ')
    rows.append('| %s | %s | %s | %s | %s | %s |'%(os.path.basename(d[:-1]),esc(m['change']),esc(m['needs']),esc(m['caught_by']),'yes' if m['caught_before_strengthening'] else 'no',esc(m.get('strengthening','—'))))
tab='| seed | change | needs, to manifest | caught by | before? | strengthening made |\n|---|---|---|---|---|---|\n'+'\n'.join(rows)+'\n'
p='/verif/DESIGN.md'
s=open(p).read()
s=re.sub(r'\| seed \|[^\n]*\n(\|[^\n]*\n)+',lambda _ :tab,s,count=1)
open(p,'w').write(s)
print(len(rows),'rows')
