#!/bin/bash
# confirmseed.sh <seed-dir> [pkgdir]: in a scratch worktree, confirm that the seeded change compiles, that its
# demonstration fails with the change and passes without it, and that the existing suite passes with it.
set -u
SEED="$1"; PKG="${2:-.}"; RACE="${3:-}"   # third argument "-race": run the demonstration under the race detector
ID=$(basename "$SEED")
WT=/tmp/cs_$ID
git -C /repo worktree remove --force "$WT" 2>/dev/null
git -C /repo worktree add -q --detach "$WT" HEAD || exit 2
cd "$WT"
export GOPROXY=off
demo=$(ls "$SEED"/zz_seed_demo_test.go)
res="$SEED/confirm.log"; : > "$res"
cp "$demo" "$WT/$PKG/zz_seed_demo_test.go"
echo "== demo without the change (expect ok)" >> "$res"
env -u GOFLAGS go test -mod=mod -vet=off $RACE -count=1 -timeout 60m -run 'Seed|ZZ' "./$PKG" 2>&1 | grep -v '^20[0-9][0-9]/' | tail -5 >> "$res"
git apply "$SEED/patch.diff" || { echo "patch failed" >> "$res"; exit 2; }
echo "== build with the change" >> "$res"
go build ./... >> "$res" 2>&1 && echo "build ok" >> "$res"
echo "== demo with the change (expect FAIL)" >> "$res"
env -u GOFLAGS go test -mod=mod -vet=off $RACE -count=1 -timeout 60m -run 'Seed|ZZ' "./$PKG" 2>&1 | grep -v '^20[0-9][0-9]/' | tail -8 >> "$res"
rm -f "$WT/$PKG/zz_seed_demo_test.go"
echo "== existing suite with the change (expect ok)" >> "$res"
env -u GOFLAGS go test -p 1 -mod=mod -vet=off -count=1 -timeout 90m ./... 2>&1 | grep '^ok\|^FAIL\|^--- FAIL\|^panic' >> "$res"
cd /; git -C /repo worktree remove --force "$WT"
echo "confirmed $ID"; cat "$res"
