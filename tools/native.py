#!/usr/bin/env python3
"""native.py <verifdir> <pkgdir> <cases.json> [out.json]: run harness cases natively (no engine) against /repo.
cases.json: [{"harness": "...", "inputs": {"name": "value", ...}}, ...]. Debugging aid for harness development."""
import json,os,subprocess,sys,tempfile,glob,re
vd,pkgdir,cases=sys.argv[1],sys.argv[2],sys.argv[3]
out=sys.argv[4] if len(sys.argv)>4 else '/dev/stdout'
work=tempfile.mkdtemp(prefix='native-',dir=os.path.join(vd,'.work'))
hroot=os.path.join(vd,'harness','gogen')
repl={}
for root,_,files in os.walk(hroot):
    rel=os.path.relpath(root,hroot)
    for f in files:
        if f.endswith('.go'):
            repl[os.path.normpath(os.path.join('/repo',rel,f))]=os.path.join(root,f)
repl['/repo/internal/vp/vp.go']=os.path.join(vd,'vp','vp.go')
hdir=os.path.normpath(os.path.join(hroot,pkgdir))
names=[]
pkgname=None
for f in glob.glob(hdir+'/*.go'):
    s=open(f).read()
    pkgname=re.search(r'^package (\w+)',s,re.M).group(1)
    names+=re.findall(r'^func (VerifH_\w+)\(\)',s,re.M)
init='\tVerifReplayInit()\n' if any('func VerifReplayInit' in open(f).read() for f in glob.glob(hdir+'/*.go')) else ''
drv='//go:build verif\n\npackage %s\n\nimport (\n\t"testing"\n\t"github.com/goplus/gogen/internal/vp"\n)\n\nvar verifHarnesses = map[string]func(){\n%s}\n\nfunc TestVerifReplay(t *testing.T) {\n%s\tcases, err := vp.LoadCases()\n\tif err != nil {\n\t\tt.Fatal(err)\n\t}\n\tvar out []vp.Result\n\tfor _, c := range cases {\n\t\tout = append(out, vp.RunCase(c, verifHarnesses[c.Harness]))\n\t}\n\tif err := vp.SaveResults(out); err != nil {\n\t\tt.Fatal(err)\n\t}\n}\n'%(pkgname,''.join('\t"%s": %s,\n'%(n,n) for n in sorted(names)),init)
dp=os.path.join(work,'zz_verif_replay_test.go'); open(dp,'w').write(drv)
repl[os.path.normpath(os.path.join('/repo',pkgdir,'zz_verif_replay_test.go'))]=dp
ov=os.path.join(work,'overlay.json'); json.dump({'Replace':repl},open(ov,'w'))
env=dict(os.environ,GOFLAGS='-mod=mod',GOPROXY='off',GOSUMDB='off',GOTOOLCHAIN='local')
binp=os.path.join(work,'replay.test')
r=subprocess.run(['go','test','-c','-o',binp,'-tags','verif','-vet=off','-ldflags=-checklinkname=0','-overlay',ov,'./'+pkgdir],cwd='/repo',env=env,capture_output=True,text=True)
if r.returncode!=0:
    print(r.stdout[-3000:],r.stderr[-3000:]); sys.exit(2)
res=os.path.join(work,'res.json')
env.update(VERIF_REPLAY=os.path.abspath(cases),VERIF_REPLAY_OUT=res)
r=subprocess.run([binp,'-test.run','^TestVerifReplay$','-test.timeout','600s'],cwd=os.path.join('/repo',pkgdir),env=env,capture_output=True,text=True)
if not os.path.exists(res):
    print(r.stdout[-3000:],r.stderr[-3000:]); sys.exit(2)
open(out,'w').write(open(res).read())
subprocess.run(['rm','-rf',work])
