// Package vp holds the verification primitives used by harnesses.
//
// Under the symbolic executor (gosym) every function here is intercepted:
// inputs become SMT variables, Assert becomes a solver query.  Compiled
// natively the same functions read a replay vector (one solver model) and log
// what happened, so a harness is also its own replay test.
package vp

import (
	"encoding/json"
	"fmt"
	"go/ast"
	"go/constant"
	"go/token"
	"go/types"
	"math/big"
	"os"
	"runtime"
	"strconv"
	"strings"
)

// Case is one replay vector.
type Case struct {
	Harness string            `json:"harness"`
	Inputs  map[string]string `json:"inputs"`
}

// Event is one logged observation.
type Event struct {
	Kind string `json:"kind"`
	ID   string `json:"id"`
	Val  string `json:"val"`
}

// Result of replaying one case.
type Result struct {
	Events  []Event `json:"events"`
	Outcome string  `json:"outcome"`
	Panic   string  `json:"panic,omitempty"`
}

var (
	cur    *Case
	events []Event
)

type assumeFailed struct{}

// RunCase executes f under the given replay vector.
func RunCase(c *Case, f func()) (res Result) {
	cur = c
	events = nil
	defer func() {
		res.Events = events
		if r := recover(); r != nil {
			if _, ok := r.(assumeFailed); ok {
				res.Outcome = "assume-failed"
				return
			}
			res.Outcome = "panic"
			res.Panic = fmt.Sprint(r)
			if _, ok := r.(runtime.Error); ok {
				res.Outcome = "fault"
			}
			return
		}
	}()
	f()
	res.Outcome = "return"
	return
}

// LoadCases reads the replay file named by $VERIF_REPLAY.
func LoadCases() ([]*Case, error) {
	b, err := os.ReadFile(os.Getenv("VERIF_REPLAY"))
	if err != nil {
		return nil, err
	}
	var cs []*Case
	if err := json.Unmarshal(b, &cs); err != nil {
		return nil, err
	}
	return cs, nil
}

// SaveResults writes results to $VERIF_REPLAY_OUT.
func SaveResults(rs []Result) error {
	b, _ := json.MarshalIndent(rs, "", " ")
	return os.WriteFile(os.Getenv("VERIF_REPLAY_OUT"), b, 0644)
}

func input(name string) (string, bool) {
	if cur == nil {
		return "", false
	}
	v, ok := cur.Inputs[name]
	return v, ok
}

func inputInt(name string, def int64) int64 {
	if s, ok := input(name); ok {
		v, err := strconv.ParseInt(s, 10, 64)
		if err == nil {
			return v
		}
		u, err := strconv.ParseUint(s, 10, 64)
		if err == nil {
			return int64(u)
		}
	}
	return def
}

// Int returns an arbitrary int in [lo, hi].
func Int(name string, lo, hi int) int { return int(inputInt(name, int64(lo))) }

// Int64 returns an arbitrary int64 in [lo, hi].
func Int64(name string, lo, hi int64) int64 { return inputInt(name, lo) }

// Uint64 returns an arbitrary uint64.
func Uint64(name string) uint64 {
	if s, ok := input(name); ok {
		u, _ := strconv.ParseUint(s, 10, 64)
		return u
	}
	return 0
}

// Uint32 returns an arbitrary uint32.
func Uint32(name string) uint32 { return uint32(Uint64(name)) }

// Byte returns an arbitrary byte.
func Byte(name string) byte { return byte(Uint64(name)) }

// Bool returns an arbitrary bool.
func Bool(name string) bool { return inputInt(name, 0) != 0 }

// Tok returns an arbitrary token out of toks (symbolic, no fork).
func Tok(name string, toks ...token.Token) token.Token {
	return token.Token(inputInt(name, int64(toks[0])))
}

// Kind returns an arbitrary basic kind out of kinds (symbolic, no fork).
func Kind(name string, kinds ...types.BasicKind) types.BasicKind {
	return types.BasicKind(inputInt(name, int64(kinds[0])))
}

// Choose forks the exploration n ways and returns the branch index.
func Choose(name string, n int) int { return int(inputInt(name, 0)) }

// Pick returns one of opts as a symbolic (finite-choice) string.
func Pick(name string, opts ...string) string {
	i := int(inputInt(name, 0))
	if i < 0 || i >= len(opts) {
		i = 0
	}
	return opts[i]
}

func bigOf(s string) (*big.Int, bool) { return new(big.Int).SetString(s, 10) }

func constInt(s string) constant.Value {
	b, ok := bigOf(s)
	if !ok {
		return constant.MakeInt64(0)
	}
	return constant.Make(b)
}

func constRat(s string) constant.Value {
	r, ok := new(big.Rat).SetString(s)
	if !ok {
		r = new(big.Rat)
	}
	if r.IsInt() {
		return constant.ToFloat(constant.Make(new(big.Int).Set(r.Num())))
	}
	return constant.Make(r)
}

// ConstInt returns an arbitrary integer constant (unbounded).
func ConstInt(name string) constant.Value {
	s, _ := input(name)
	if s == "" {
		s = "0"
	}
	return constInt(s)
}

// ConstFloat returns an arbitrary Float-kind constant (exact rational).
func ConstFloat(name string) constant.Value {
	s, _ := input(name)
	if s == "" {
		s = "0"
	}
	return constRat(s)
}

// ConstNum returns an arbitrary Int or Float constant (forks on the kind).
func ConstNum(name string) constant.Value {
	if inputInt(name+".kind", 0) == 0 {
		return ConstInt(name + ".i")
	}
	return ConstFloat(name + ".r")
}

// ConstComplex returns an arbitrary Complex-kind constant.
func ConstComplex(name string) constant.Value {
	re := ConstFloat(name + ".re")
	im := ConstFloat(name + ".im")
	return constant.BinaryOp(constant.ToComplex(re), token.ADD, constant.MakeImag(im))
}

// ConstAny returns an arbitrary constant of kind Int, Float, Complex, Bool or String (forks on the kind).
func ConstAny(name string) constant.Value {
	switch inputInt(name+".kind", 0) {
	case 0:
		return ConstInt(name + ".i")
	case 1:
		return ConstFloat(name + ".r")
	case 2:
		return ConstComplex(name)
	case 3:
		return constant.MakeBool(Bool(name + ".b"))
	}
	return constant.MakeString(Pick(name+".s", "", "a", "ab"))
}

// Assume restricts the inputs considered.
func Assume(b bool) {
	if !b {
		panic(assumeFailed{})
	}
}

// Assert states the property.
func Assert(id string, b bool) {
	events = append(events, Event{"assert", id, strconv.FormatBool(b)})
}

// Cover marks a reachability witness.
func Cover(id string, b bool) {}

// Observe logs a value for encoder validation.
func Observe(id string, v interface{}) {
	events = append(events, Event{"observe", id, Render(v)})
}

// Render is the canonical rendering shared with the engine.
func Render(v interface{}) string {
	switch x := v.(type) {
	case nil:
		return "nil"
	case bool:
		return strconv.FormatBool(x)
	case int:
		return strconv.FormatInt(int64(x), 10)
	case int8:
		return strconv.FormatInt(int64(x), 10)
	case int16:
		return strconv.FormatInt(int64(x), 10)
	case int32:
		return strconv.FormatInt(int64(x), 10)
	case int64:
		return strconv.FormatInt(x, 10)
	case uint:
		return strconv.FormatUint(uint64(x), 10)
	case uint8:
		return strconv.FormatUint(uint64(x), 10)
	case uint16:
		return strconv.FormatUint(uint64(x), 10)
	case uint32:
		return strconv.FormatUint(uint64(x), 10)
	case uint64:
		return strconv.FormatUint(x, 10)
	case uintptr:
		return strconv.FormatUint(uint64(x), 10)
	case string:
		return strconv.Quote(x)
	case token.Token:
		return strconv.Itoa(int(x))
	case types.BasicKind:
		return strconv.Itoa(int(x))
	case constant.Value:
		return RenderConst(x)
	case types.Type:
		return "type:" + types.TypeString(x, nil)
	case error:
		return "error"
	}
	return fmt.Sprintf("<%T>", v)
}

func ratString(v constant.Value) string {
	switch x := constant.Val(v).(type) {
	case int64:
		return strconv.FormatInt(x, 10)
	case *big.Int:
		return x.String()
	case *big.Rat:
		return x.RatString()
	case *big.Float:
		r, _ := x.Rat(nil)
		if r == nil {
			return x.String()
		}
		return r.RatString()
	}
	return "?"
}

// RenderConst renders kind and exact value.
func RenderConst(x constant.Value) string {
	if x == nil {
		return "nil"
	}
	switch x.Kind() {
	case constant.Unknown:
		return "unknown"
	case constant.Bool:
		return "bool:" + strconv.FormatBool(constant.BoolVal(x))
	case constant.String:
		return "string:" + strconv.Quote(constant.StringVal(x))
	case constant.Int:
		return "int:" + ratString(x)
	case constant.Float:
		return "float:" + ratString(x)
	case constant.Complex:
		return "complex:" + ratString(constant.Real(x)) + "," + ratString(constant.Imag(x))
	}
	return "?"
}

// Panic classes reported by Try.
const (
	NoPanic    = 0
	ErrPanic   = 1 // panic(error) that is not a run-time fault
	FaultPanic = 2 // run-time fault (nil dereference, index, failed assertion, divide)
	OtherPanic = 3 // panic(string) and anything else
)

// Try runs f and classifies how it ended.
func Try(f func()) (class int) {
	defer func() {
		if r := recover(); r != nil {
			switch x := r.(type) {
			case assumeFailed:
				panic(r)
			case runtime.Error:
				class = FaultPanic
			case error:
				_ = x
				class = ErrPanic
			default:
				class = OtherPanic
			}
		}
	}()
	f()
	return NoPanic
}

// TryVal is Try that also returns the recovered value.
func TryVal(f func()) (class int, val interface{}) {
	defer func() {
		if r := recover(); r != nil {
			val = r
			switch r.(type) {
			case assumeFailed:
				panic(r)
			case runtime.Error:
				class = FaultPanic
			case error:
				class = ErrPanic
			default:
				class = OtherPanic
			}
		}
	}()
	f()
	return NoPanic, nil
}

// MapOrder makes subsequent map iteration orders arbitrary (engine only; natively Go randomises).
func MapOrder(arbitrary bool) {}

// TrackGlobals turns the global-write monitor on (engine only).
func TrackGlobals(on bool) {}

// Fresh returns an arbitrary uint32 (uninterpreted value).
func Fresh(name string) uint32 { return uint32(Uint64(name)) }

// Symbolic reports whether the harness runs under the symbolic executor.
func Symbolic() bool { return false }

// Note attaches free text to the current path (evidence samples).
func Note(s string) {}

var _ = strings.Contains

// Oracle logs (natively only) whether the harness's reference formula agrees with
// go/types on the concrete replay input; a disagreement marks the reference wrong,
// never the code under test.
func Oracle(id string, agrees bool, detail string) {
	v := "true"
	if !agrees {
		v = "MISMATCH " + detail
	}
	events = append(events, Event{"oracle", id, v})
}

// Thorough reports whether the thorough tier is running (harnesses widen enumerated structure).
func Thorough() bool { return inputInt("__thorough", 0) != 0 }

// Fact names an integer quantity of the current case so that known-finding regions can refer to it (engine only).
func Fact(name string, v int) {}

// FactBool names a condition of the current case for known-finding regions (engine only).
func FactBool(name string, b bool) {}

// And is a non-short-circuit conjunction (no fork under the engine).
func And(a, b bool) bool { return a && b }

// Or is a non-short-circuit disjunction (no fork under the engine).
func Or(a, b bool) bool { return a || b }

// Stub replaces the named function of the code under test by fn while the engine runs
// (no effect natively, where the harness realises the same structure with real values).
func Stub(name string, fn interface{}) {}

// StubPre installs a pre-stub (engine only): fn takes the original parameters and returns
// (handled bool, results...); when handled is false the real function runs.
func StubPre(name string, fn interface{}) {}

// Ite is a conditional without a fork under the engine.
func Ite(c, a, b bool) bool {
	if c {
		return a
	}
	return b
}

// DepthIsFault declares (engine only) that no terminating run of the code under test on this harness's
// inputs nests calls deeper than n frames: exceeding it is reported as a run-time fault (stack overflow:
// unbounded recursion) instead of ending the path at the engine's call-depth bound. Natively the real
// stack overflow is fatal to the replay process, which is the reproduction.
func DepthIsFault(n int) {}

// SymbolicAddrs makes pointer-to-integer conversions yield arbitrary (symbolic) addresses (engine only).
func SymbolicAddrs(on bool) {}

// AssertNoGlobalWrites asserts (engine only) that nothing since TrackGlobals(true) wrote to package-level state;
// natively the harness runs the same operations on two goroutines under the race detector instead.
func AssertNoGlobalWrites(id string) { events = append(events, Event{"assert", id, "true"}) }

// ---------------------------------------------------------------------------
// Canon: canonical form of a syntax tree, parentheses and positions dropped (used by the
// round-trip harnesses of C02 and C12)

func Canon(n ast.Node) string {
	// "else { if … }" and "else if …" are one construct for the builder (Else followed by a single If)
	ast.Inspect(n, func(n ast.Node) bool {
		if fl, ok := n.(*ast.FieldList); ok && fl != nil {
			// "X, Y int" and "X int; Y int" declare the same fields
			var list []*ast.Field
			for _, f := range fl.List {
				if len(f.Names) <= 1 {
					list = append(list, f)
					continue
				}
				for _, name := range f.Names {
					list = append(list, &ast.Field{Names: []*ast.Ident{name}, Type: f.Type, Tag: f.Tag})
				}
			}
			fl.List = list
		}
		if is, ok := n.(*ast.IfStmt); ok {
			if blk, ok := is.Else.(*ast.BlockStmt); ok && len(blk.List) == 1 {
				if inner, ok := blk.List[0].(*ast.IfStmt); ok {
					is.Else = inner
				}
			}
		}
		return true
	})
	var sb strings.Builder
	ast.Inspect(n, func(n ast.Node) bool {
		if n == nil {
			sb.WriteString(")")
			return true
		}
		sb.WriteString("(")
		switch v := n.(type) {
		case *ast.ParenExpr:
			sb.WriteString("P")
		case *ast.Ident:
			sb.WriteString("id:" + v.Name)
		case *ast.BasicLit:
			val := v.Value
			if v.Kind == token.STRING { // raw and interpreted spellings of one string value
				if u, err := strconv.Unquote(val); err == nil {
					val = strconv.Quote(u)
				}
			}
			sb.WriteString("lit:" + v.Kind.String() + ":" + val)
		case *ast.BinaryExpr:
			sb.WriteString("bin:" + v.Op.String())
		case *ast.UnaryExpr:
			sb.WriteString("un:" + v.Op.String())
		case *ast.StarExpr:
			sb.WriteString("star")
		case *ast.IndexExpr:
			sb.WriteString("index")
		case *ast.SliceExpr:
			sb.WriteString("slice:" + nilMask(v.Low != nil, v.High != nil, v.Max != nil, v.Slice3))
		case *ast.SelectorExpr:
			sb.WriteString("sel")
		case *ast.CallExpr:
			sb.WriteString("call:" + nilMask(v.Ellipsis.IsValid()))
		case *ast.TypeAssertExpr:
			sb.WriteString("assert:" + nilMask(v.Type != nil))
		case *ast.FuncLit:
			sb.WriteString("funclit")
		case *ast.CompositeLit:
			sb.WriteString("complit:" + nilMask(v.Type != nil))
		case *ast.KeyValueExpr:
			sb.WriteString("kv")
		case *ast.Ellipsis:
			sb.WriteString("ellipsis")
		case *ast.ArrayType:
			sb.WriteString("array:" + nilMask(v.Len != nil))
		case *ast.MapType:
			sb.WriteString("map")
		case *ast.ChanType:
			sb.WriteString("chan:" + strconv.Itoa(int(v.Dir)))
		case *ast.FuncType:
			sb.WriteString("functype:" + nilMask(v.Params != nil, v.Results != nil && len(v.Results.List) > 0))
		case *ast.StructType:
			sb.WriteString("struct")
		case *ast.InterfaceType:
			sb.WriteString("iface")
		case *ast.FieldList:
			sb.WriteString("fields")
		case *ast.Field:
			sb.WriteString("field:" + strconv.Itoa(len(v.Names)))
		case *ast.ExprStmt:
			sb.WriteString("expr")
		case *ast.AssignStmt:
			sb.WriteString("assign:" + v.Tok.String() + ":" + strconv.Itoa(len(v.Lhs)))
		case *ast.IncDecStmt:
			sb.WriteString("incdec:" + v.Tok.String())
		case *ast.DeclStmt:
			sb.WriteString("decl")
		case *ast.GenDecl:
			sb.WriteString("gen:" + v.Tok.String())
		case *ast.ValueSpec:
			sb.WriteString("valspec:" + strconv.Itoa(len(v.Names)) + nilMask(v.Type != nil))
		case *ast.SendStmt:
			sb.WriteString("send")
		case *ast.GoStmt:
			sb.WriteString("go")
		case *ast.DeferStmt:
			sb.WriteString("defer")
		case *ast.ReturnStmt:
			sb.WriteString("return")
		case *ast.BlockStmt:
			sb.WriteString("block")
		case *ast.IfStmt:
			sb.WriteString("if:" + nilMask(v.Init != nil, v.Else != nil))
		case *ast.ForStmt:
			sb.WriteString("for:" + nilMask(v.Init != nil, v.Cond != nil, v.Post != nil))
		case *ast.RangeStmt:
			sb.WriteString("range:" + v.Tok.String() + nilMask(v.Key != nil, v.Value != nil))
		case *ast.SwitchStmt:
			sb.WriteString("switch:" + nilMask(v.Init != nil, v.Tag != nil))
		case *ast.TypeSwitchStmt:
			sb.WriteString("typeswitch:" + nilMask(v.Init != nil))
		case *ast.CaseClause:
			sb.WriteString("case:" + strconv.Itoa(len(v.List)))
		case *ast.SelectStmt:
			sb.WriteString("select")
		case *ast.CommClause:
			sb.WriteString("comm:" + nilMask(v.Comm != nil))
		case *ast.LabeledStmt:
			sb.WriteString("label")
		case *ast.BranchStmt:
			sb.WriteString("branch:" + v.Tok.String() + nilMask(v.Label != nil))
		case *ast.EmptyStmt:
			sb.WriteString("empty")
		default:
			sb.WriteString("?")
		}
		return true
	})
	// parentheses carry no structure: "(P" ... ")" pairs are removed textually by the caller's
	// comparison through dropParens
	return dropParens(sb.String())
}

func nilMask(bs ...bool) string {
	r := ""
	for _, b := range bs {
		if b {
			r += "1"
		} else {
			r += "0"
		}
	}
	return r
}

// dropParens removes every "(P" node wrapper (and its matching ")") from a canonical string.
func dropParens(s string) string {
	var out []byte
	var stack []bool // true: this open bracket was a paren node (dropped)
	for i := 0; i < len(s); i++ {
		switch s[i] {
		case '(':
			if i+1 < len(s) && s[i+1] == 'P' && (i+2 >= len(s) || s[i+2] == '(' || s[i+2] == ')') {
				stack = append(stack, true)
				i++ // skip 'P'
				continue
			}
			stack = append(stack, false)
			out = append(out, '(')
		case ')':
			top := stack[len(stack)-1]
			stack = stack[:len(stack)-1]
			if !top {
				out = append(out, ')')
			}
		default:
			out = append(out, s[i])
		}
	}
	return string(out)
}
