package main

// One long-lived solver process (z3 -in) with push/pop.

import (
	"bufio"
	"fmt"
	"io"
	"math/big"
	"os"
	"os/exec"
	"strings"
	"time"
)

type Solver struct {
	cmd     *exec.Cmd
	in      *bufio.Writer
	out     *bufio.Reader
	defined map[int]bool
	ufs     map[string]bool
	journal [][]int
	ujourn  [][]string
	Queries int
	Unknown int
	Errors  int
	Time    time.Duration
	log     io.Writer
	name    string
	timeout int // ms
	onSlow  func(d time.Duration, r string)
}

func solverArgv(name string, timeoutMs int) []string {
	switch name {
	case "z3", "z3-new":
		return []string{name, "-in", fmt.Sprintf("-t:%d", timeoutMs)}
	case "cvc5":
		return []string{"cvc5", "--incremental", "--lang=smt2", "--produce-models", fmt.Sprintf("--tlimit-per=%d", timeoutMs)}
	}
	return []string{name, "-in"}
}

func NewSolver(name string, timeoutMs int) (*Solver, error) {
	argv := solverArgv(name, timeoutMs)
	cmd := exec.Command(argv[0], argv[1:]...)
	stdin, err := cmd.StdinPipe()
	if err != nil {
		return nil, err
	}
	stdout, err := cmd.StdoutPipe()
	if err != nil {
		return nil, err
	}
	cmd.Stderr = os.Stderr
	if err := cmd.Start(); err != nil {
		return nil, err
	}
	s := &Solver{cmd: cmd, in: bufio.NewWriterSize(stdin, 1<<16), out: bufio.NewReaderSize(stdout, 1<<16),
		defined: map[int]bool{}, ufs: map[string]bool{}, name: name, timeout: timeoutMs}
	if p := os.Getenv("GOSYM_SMTLOG"); p != "" {
		f, _ := os.OpenFile(p, os.O_CREATE|os.O_WRONLY|os.O_APPEND, 0644)
		s.log = f
	}
	s.send("(set-option :produce-models true)")
	if name == "cvc5" {
		s.send("(set-logic ALL)")
	}
	s.journal = [][]int{nil}
	s.ujourn = [][]string{nil}
	return s, nil
}

func (s *Solver) Close() {
	s.send("(exit)")
	s.in.Flush()
	s.cmd.Process.Kill()
	s.cmd.Wait()
}

func (s *Solver) send(line string) {
	if s.log != nil {
		fmt.Fprintln(s.log, line)
	}
	s.in.WriteString(line)
	s.in.WriteByte('\n')
}

func (s *Solver) Push() {
	s.send("(push 1)")
	s.journal = append(s.journal, nil)
	s.ujourn = append(s.ujourn, nil)
}

func (s *Solver) Pop() {
	s.send("(pop 1)")
	n := len(s.journal) - 1
	for _, id := range s.journal[n] {
		delete(s.defined, id)
	}
	for _, u := range s.ujourn[n] {
		delete(s.ufs, u)
	}
	s.journal = s.journal[:n]
	s.ujourn = s.ujourn[:n]
}

func (s *Solver) Level() int { return len(s.journal) - 1 }

func (s *Solver) PopTo(level int) {
	for s.Level() > level {
		s.Pop()
	}
}

func tname(t *Term) string { return fmt.Sprintf("t!%d", t.id) }

// ref returns the SMT text referring to t, emitting definitions as needed.
func (s *Solver) ref(t *Term) string {
	switch t.op {
	case "const":
		return t.constSMT()
	case "var":
		if !s.defined[t.id] {
			s.send(fmt.Sprintf("(declare-const %s %s)", smtName(t.name), t.sort))
			s.mark(t.id)
		}
		return smtName(t.name)
	}
	if s.defined[t.id] {
		return tname(t)
	}
	parts := make([]string, len(t.args))
	for i, a := range t.args {
		parts[i] = s.ref(a)
	}
	if strings.HasPrefix(t.op, "uf:") {
		un := t.op[3:]
		if !s.ufs[un] {
			as := make([]string, len(t.args))
			for i, a := range t.args {
				as[i] = a.sort.String()
			}
			s.send(fmt.Sprintf("(declare-fun %s (%s) %s)", smtName(un), strings.Join(as, " "), t.sort))
			s.ufs[un] = true
			n := len(s.ujourn) - 1
			s.ujourn[n] = append(s.ujourn[n], un)
		}
	}
	body := "(" + t.head() + " " + strings.Join(parts, " ") + ")"
	if t.op == "sbv2int" {
		w := t.args[0].sort.W
		p2 := new(big.Int).Lsh(big.NewInt(1), uint(w))
		zero := (&Term{op: "const", sort: sortBV(w)}).constSMT()
		body = fmt.Sprintf("(ite (bvslt %s %s) (- (bv2nat %s) %s) (bv2nat %s))", parts[0], zero, parts[0], p2.String(), parts[0])
	}
	if len(t.args) == 0 {
		body = t.head()
	}
	s.send(fmt.Sprintf("(define-fun %s () %s %s)", tname(t), t.sort, body))
	s.mark(t.id)
	return tname(t)
}

func (s *Solver) mark(id int) {
	s.defined[id] = true
	n := len(s.journal) - 1
	s.journal[n] = append(s.journal[n], id)
}

func (s *Solver) Assert(t *Term) {
	s.send("(assert " + s.ref(t) + ")")
}

type SatResult int

const (
	Unsat SatResult = iota
	Sat
	UnknownRes
)

func (r SatResult) String() string { return [...]string{"unsat", "sat", "unknown"}[r] }

func (s *Solver) Check() SatResult {
	s.send("(check-sat)")
	s.in.Flush()
	t0 := time.Now()
	res := "?"
	defer func() {
		d := time.Since(t0)
		s.Time += d
		if d > 3*time.Second && s.onSlow != nil {
			s.onSlow(d, res)
		}
	}()
	s.Queries++
	sawErr := false
	for {
		line, err := s.out.ReadString('\n')
		if err != nil {
			s.Errors++
			s.Unknown++
			return UnknownRes
		}
		line = strings.TrimSpace(line)
		if s.log != nil {
			fmt.Fprintln(s.log, "; <- "+line)
		}
		switch {
		case line == "sat":
			if sawErr {
				s.Unknown++
				return UnknownRes
			}
			res = "sat"
			return Sat
		case line == "unsat":
			if sawErr {
				s.Unknown++
				return UnknownRes
			}
			res = "unsat"
			return Unsat
		case line == "unknown" || line == "timeout":
			res = "unknown"
			s.Unknown++
			return UnknownRes
		case strings.HasPrefix(line, "(error"):
			sawErr = true
			s.Errors++
			fmt.Fprintln(os.Stderr, "solver:", line)
		}
	}
}

// CheckWith checks satisfiability of the current assertions plus extra (temporary).
func (s *Solver) CheckWith(extra ...*Term) SatResult {
	s.Push()
	for _, e := range extra {
		s.Assert(e)
	}
	r := s.Check()
	s.Pop()
	return r
}

// ---- model values ----

type ModelVal struct {
	B    bool
	U    uint64
	I    *big.Int
	R    *big.Rat
	Sort Sort
}

func (m ModelVal) String() string {
	switch m.Sort.K {
	case SBool:
		return fmt.Sprint(m.B)
	case SBV:
		return fmt.Sprint(m.U)
	case SInt:
		return m.I.String()
	case SReal:
		return m.R.RatString()
	}
	return "?"
}

// GetValues must be called right after a Sat Check (in the same push level).
func (s *Solver) GetValues(ts []*Term) ([]ModelVal, error) {
	if len(ts) == 0 {
		return nil, nil
	}
	refs := make([]string, len(ts))
	for i, t := range ts {
		refs[i] = s.ref(t)
	}
	// definitions may have been emitted after check-sat; z3 keeps the model valid for define-fun
	// but to be safe re-check.
	s.send("(check-sat)")
	s.in.Flush()
	for {
		line, err := s.out.ReadString('\n')
		if err != nil {
			return nil, err
		}
		line = strings.TrimSpace(line)
		if line == "sat" {
			break
		}
		if line == "unsat" || line == "unknown" || line == "timeout" {
			return nil, fmt.Errorf("model re-check: %s", line)
		}
	}
	s.send("(get-value (" + strings.Join(refs, " ") + "))")
	s.in.Flush()
	txt, err := s.readSexp()
	if err != nil {
		return nil, err
	}
	sx, _, err := parseSexp(txt, 0)
	if err != nil {
		return nil, fmt.Errorf("parse %q: %v", txt, err)
	}
	if len(sx.list) != len(ts) {
		return nil, fmt.Errorf("get-value: expected %d got %d: %s", len(ts), len(sx.list), txt)
	}
	out := make([]ModelVal, len(ts))
	for i, pair := range sx.list {
		if len(pair.list) != 2 {
			return nil, fmt.Errorf("bad pair in %s", txt)
		}
		v, err := evalSexp(pair.list[1], ts[i].sort)
		if err != nil {
			return nil, fmt.Errorf("value of %s: %v (%s)", refs[i], err, txt)
		}
		out[i] = v
	}
	return out, nil
}

func (s *Solver) readSexp() (string, error) {
	var sb strings.Builder
	depth := 0
	started := false
	for {
		line, err := s.out.ReadString('\n')
		if err != nil {
			return "", err
		}
		if s.log != nil {
			fmt.Fprint(s.log, "; <- "+line)
		}
		inBar := false
		for _, c := range line {
			if c == '|' {
				inBar = !inBar
			}
			if inBar {
				continue
			}
			if c == '(' {
				depth++
				started = true
			} else if c == ')' {
				depth--
			}
		}
		sb.WriteString(line)
		if started && depth <= 0 {
			return sb.String(), nil
		}
		if !started && strings.TrimSpace(line) != "" {
			return sb.String(), nil
		}
	}
}

type sexp struct {
	atom string
	list []*sexp
	isL  bool
}

func parseSexp(s string, i int) (*sexp, int, error) {
	for i < len(s) && (s[i] == ' ' || s[i] == '\n' || s[i] == '\t' || s[i] == '\r') {
		i++
	}
	if i >= len(s) {
		return nil, i, fmt.Errorf("eof")
	}
	if s[i] == '(' {
		i++
		x := &sexp{isL: true}
		for {
			for i < len(s) && (s[i] == ' ' || s[i] == '\n' || s[i] == '\t' || s[i] == '\r') {
				i++
			}
			if i >= len(s) {
				return nil, i, fmt.Errorf("eof in list")
			}
			if s[i] == ')' {
				return x, i + 1, nil
			}
			c, j, err := parseSexp(s, i)
			if err != nil {
				return nil, j, err
			}
			x.list = append(x.list, c)
			i = j
		}
	}
	j := i
	if s[i] == '|' {
		j = i + 1
		for j < len(s) && s[j] != '|' {
			j++
		}
		j++
	} else {
		for j < len(s) && !strings.ContainsRune(" \n\t\r()", rune(s[j])) {
			j++
		}
	}
	return &sexp{atom: s[i:j]}, j, nil
}

func evalRat(x *sexp) (*big.Rat, error) {
	if !x.isL {
		r, ok := new(big.Rat).SetString(x.atom)
		if !ok {
			return nil, fmt.Errorf("bad number %q", x.atom)
		}
		return r, nil
	}
	if len(x.list) == 0 {
		return nil, fmt.Errorf("empty")
	}
	op := x.list[0].atom
	var args []*big.Rat
	for _, a := range x.list[1:] {
		r, err := evalRat(a)
		if err != nil {
			return nil, err
		}
		args = append(args, r)
	}
	switch {
	case op == "-" && len(args) == 1:
		return new(big.Rat).Neg(args[0]), nil
	case op == "-" && len(args) == 2:
		return new(big.Rat).Sub(args[0], args[1]), nil
	case op == "+" && len(args) == 2:
		return new(big.Rat).Add(args[0], args[1]), nil
	case op == "*" && len(args) == 2:
		return new(big.Rat).Mul(args[0], args[1]), nil
	case op == "/" && len(args) == 2:
		if args[1].Sign() == 0 {
			return nil, fmt.Errorf("div by zero in model")
		}
		return new(big.Rat).Quo(args[0], args[1]), nil
	case op == "to_real" && len(args) == 1:
		return args[0], nil
	}
	return nil, fmt.Errorf("unsupported numeral %s", op)
}

func evalSexp(x *sexp, sort Sort) (ModelVal, error) {
	mv := ModelVal{Sort: sort}
	switch sort.K {
	case SBool:
		mv.B = x.atom == "true"
		if x.atom != "true" && x.atom != "false" {
			return mv, fmt.Errorf("bad bool %q", x.atom)
		}
	case SBV:
		a := x.atom
		switch {
		case strings.HasPrefix(a, "#x"):
			fmt.Sscanf(a[2:], "%x", &mv.U)
		case strings.HasPrefix(a, "#b"):
			fmt.Sscanf(a[2:], "%b", &mv.U)
		case x.isL && len(x.list) == 3 && x.list[0].atom == "_" && strings.HasPrefix(x.list[1].atom, "bv"):
			fmt.Sscanf(x.list[1].atom[2:], "%d", &mv.U)
		default:
			return mv, fmt.Errorf("bad bv %q", a)
		}
	case SInt:
		r, err := evalRat(x)
		if err != nil {
			return mv, err
		}
		if !r.IsInt() {
			return mv, fmt.Errorf("non-integer Int value")
		}
		mv.I = new(big.Int).Set(r.Num())
	case SReal:
		r, err := evalRat(x)
		if err != nil {
			return mv, err
		}
		mv.R = r
	}
	return mv, nil
}
