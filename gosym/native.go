package main

// Bridging between engine values and native (reflect) values.

import (
	"fmt"
	"go/constant"
	"go/types"
	"math/big"
	"reflect"
	"unsafe"

	"golang.org/x/tools/go/ssa"
)

// roValue returns a readable (Interface-able) view of v even if obtained via unexported fields.
func roValue(v reflect.Value) reflect.Value {
	if v.CanInterface() || !v.IsValid() {
		return v
	}
	if v.CanAddr() {
		return reflect.NewAt(v.Type(), unsafe.Pointer(v.UnsafeAddr())).Elem()
	}
	// copy into addressable storage
	n := reflect.New(v.Type()).Elem()
	// cannot Set from RO value; use unsafe copy for simple kinds
	switch v.Kind() {
	case reflect.Bool:
		n.SetBool(v.Bool())
	case reflect.Int, reflect.Int8, reflect.Int16, reflect.Int32, reflect.Int64:
		n.SetInt(v.Int())
	case reflect.Uint, reflect.Uint8, reflect.Uint16, reflect.Uint32, reflect.Uint64, reflect.Uintptr:
		n.SetUint(v.Uint())
	case reflect.String:
		n.SetString(v.String())
	case reflect.Float32, reflect.Float64:
		n.SetFloat(v.Float())
	case reflect.Ptr, reflect.Map, reflect.Chan, reflect.Func, reflect.UnsafePointer:
		p := v.Pointer()
		*(*uintptr)(unsafe.Pointer(n.UnsafeAddr())) = p
	default:
		panic(fmt.Sprintf("roValue: cannot read unexported non-addressable %v", v.Type()))
	}
	return n
}

func rwValue(v reflect.Value) reflect.Value {
	if v.CanSet() {
		return v
	}
	if v.CanAddr() {
		return reflect.NewAt(v.Type(), unsafe.Pointer(v.UnsafeAddr())).Elem()
	}
	panic(fmt.Sprintf("rwValue: not addressable %v", v.Type()))
}

var (
	rtConstValue = reflect.TypeOf((*constant.Value)(nil)).Elem()
	rtTypesType  = reflect.TypeOf((*types.Type)(nil)).Elem()
	rtTypesObj   = reflect.TypeOf((*types.Object)(nil)).Elem()
	rtError      = reflect.TypeOf((*error)(nil)).Elem()
	rtEmptyIface = reflect.TypeOf((*interface{})(nil)).Elem()
	rtBigInt     = reflect.TypeOf((*big.Int)(nil))
)

// proxyType lets gogen's own types.Type implementations live inside native go/types objects.
type proxyType struct {
	e   *Exec
	val Value      // engine value (usually *Value pointing to a Struct)
	t   types.Type // analysed-program type of val
}

func (p *proxyType) Underlying() types.Type {
	r := p.e.callMethodByName(Iface{T: p.t, V: p.val}, "Underlying")
	rv := p.e.toNative(r, rtTypesType)
	if rv.IsNil() {
		return nil
	}
	return rv.Interface().(types.Type)
}

func (p *proxyType) String() string {
	r := p.e.callMethodByName(Iface{T: p.t, V: p.val}, "String")
	return p.e.concString(r)
}

// proxyObject wraps an engine struct that embeds a native types.Object and overrides Type().
type proxyObject struct {
	types.Object
	e   *Exec
	val Value
	t   types.Type
}

func (p *proxyObject) Type() types.Type {
	r := p.e.callMethodByName(Iface{T: p.t, V: p.val}, "Type")
	rv := p.e.toNative(r, rtTypesType)
	if rv.IsNil() {
		return nil
	}
	return rv.Interface().(types.Type)
}

// proxyWriter lets native code (text/tabwriter, fmt.Fprintf) write into an engine-side io.Writer.
type proxyWriter struct {
	e   *Exec
	val Iface
}

func (p *proxyWriter) Write(b []byte) (int, error) {
	e := p.e
	data := make([]Value, len(b))
	for i, c := range b {
		data[i] = e.tb.BV(8, uint64(c))
	}
	ms := e.w.prog.MethodSets.MethodSet(p.val.T)
	for i := 0; i < ms.Len(); i++ {
		if ms.At(i).Obj().Name() == "Write" {
			r := e.callFrom(nil, e.w.prog.MethodValue(ms.At(i)), []Value{p.val.V, SliceV{Data: data}}).(Tuple)
			n := int(e.concInt(r[0]))
			if ei, ok := r[1].(Iface); ok && ei.T != nil {
				return n, fmt.Errorf("engine writer error")
			}
			return n, nil
		}
	}
	return 0, fmt.Errorf("no Write method")
}

// boxedValue carries an engine value through native interface{} slots.
type boxedValue struct {
	v Value
	t types.Type
}

// proxyImporter lets native go/types call back into a harness-defined types.Importer.
type proxyImporter struct {
	e   *Exec
	val Iface
}

func (p *proxyImporter) Import(path string) (*types.Package, error) {
	e := p.e
	ms := e.w.prog.MethodSets.MethodSet(p.val.T)
	for i := 0; i < ms.Len(); i++ {
		if ms.At(i).Obj().Name() == "Import" {
			r := e.callFrom(nil, e.w.prog.MethodValue(ms.At(i)), []Value{p.val.V, path}).(Tuple)
			if ei, ok := r[1].(Iface); ok && ei.T != nil {
				return nil, fmt.Errorf("harness importer: cannot import %s", path)
			}
			rv := e.toNative(r[0], reflect.TypeOf((*types.Package)(nil)))
			if rv.IsNil() {
				return nil, fmt.Errorf("harness importer: nil package for %s", path)
			}
			return rv.Interface().(*types.Package), nil
		}
	}
	return nil, fmt.Errorf("no Import method")
}

type proxyError struct {
	e   *Exec
	val Iface
}

func (p *proxyError) Error() string {
	r := p.e.callMethodByName(p.val, "Error")
	return p.e.concString(r)
}

// callMethodByName calls a method of an engine value through its dynamic type.
func (e *Exec) callMethodByName(recv Iface, name string) Value {
	if _, ok := recv.V.(Native); ok {
		return e.callMethodRef(&methodRef{name: name}, []Value{recv.V})
	}
	ms := e.w.prog.MethodSets.MethodSet(recv.T)
	for i := 0; i < ms.Len(); i++ {
		sel := ms.At(i)
		if sel.Obj().Name() == name {
			fn := e.w.prog.MethodValue(sel)
			return e.callFrom(nil, fn, []Value{recv.V})
		}
	}
	panic(fmt.Sprintf("callMethodByName: %v has no method %s", recv.T, name))
}

func (e *Exec) hasMethod(t types.Type, name string) bool {
	if t == nil || t == cvFakeType {
		return false
	}
	ms := e.w.prog.MethodSets.MethodSet(t)
	for i := 0; i < ms.Len(); i++ {
		if ms.At(i).Obj().Name() == name {
			return true
		}
	}
	return false
}

// reflectTypeOf maps an analysed-program type to a native reflect.Type where possible.
func (e *Exec) reflectTypeOf(t types.Type) (reflect.Type, bool) {
	switch u := types.Unalias(t).(type) {
	case *types.Named:
		if o := u.Obj(); o.Pkg() != nil {
			if rt, ok := nativeTypes[o.Pkg().Path()+"."+o.Name()]; ok {
				return rt, true
			}
		} else if o.Name() == "error" {
			return rtError, true
		}
		if _, isI := u.Underlying().(*types.Interface); isI {
			return nil, false
		}
		return nil, false
	case *types.Pointer:
		if et, ok := e.reflectTypeOf(u.Elem()); ok {
			return reflect.PointerTo(et), true
		}
	case *types.Slice:
		if et, ok := e.reflectTypeOf(u.Elem()); ok {
			return reflect.SliceOf(et), true
		}
	case *types.Basic:
		switch u.Kind() {
		case types.Bool:
			return reflect.TypeOf(false), true
		case types.Int:
			return reflect.TypeOf(int(0)), true
		case types.Int8:
			return reflect.TypeOf(int8(0)), true
		case types.Int16:
			return reflect.TypeOf(int16(0)), true
		case types.Int32:
			return reflect.TypeOf(int32(0)), true
		case types.Int64:
			return reflect.TypeOf(int64(0)), true
		case types.Uint:
			return reflect.TypeOf(uint(0)), true
		case types.Uint8:
			return reflect.TypeOf(uint8(0)), true
		case types.Uint16:
			return reflect.TypeOf(uint16(0)), true
		case types.Uint32:
			return reflect.TypeOf(uint32(0)), true
		case types.Uint64:
			return reflect.TypeOf(uint64(0)), true
		case types.Uintptr:
			return reflect.TypeOf(uintptr(0)), true
		case types.String:
			return reflect.TypeOf(""), true
		case types.Float64:
			return reflect.TypeOf(float64(0)), true
		case types.Float32:
			return reflect.TypeOf(float32(0)), true
		}
	case *types.Interface:
		if u.NumMethods() == 0 {
			return rtEmptyIface, true
		}
	}
	return nil, false
}

// ssaTypeOf maps a native reflect.Type to the analysed program's type.
func (w *World) ssaTypeOf(rt reflect.Type) types.Type {
	w.mu.Lock()
	defer w.mu.Unlock()
	return w.ssaTypeOfLocked(rt)
}

func (w *World) ssaTypeOfLocked(rt reflect.Type) types.Type {
	if t, ok := w.rtCache[rt]; ok {
		return t
	}
	var t types.Type
	if rt.Name() != "" && rt.PkgPath() != "" {
		if p := w.prog.ImportedPackage(rt.PkgPath()); p != nil {
			if o := p.Pkg.Scope().Lookup(rt.Name()); o != nil {
				t = o.Type()
			}
		}
		if t == nil {
			// package not loaded into the program: opaque
			t = types.NewNamed(types.NewTypeName(0, types.NewPackage(rt.PkgPath(), rt.PkgPath()), rt.Name(), nil), types.NewStruct(nil, nil), nil)
		}
	} else {
		switch rt.Kind() {
		case reflect.Ptr:
			t = types.NewPointer(w.ssaTypeOfLocked(rt.Elem()))
		case reflect.Slice:
			t = types.NewSlice(w.ssaTypeOfLocked(rt.Elem()))
		case reflect.Array:
			t = types.NewArray(w.ssaTypeOfLocked(rt.Elem()), int64(rt.Len()))
		case reflect.Map:
			t = types.NewMap(w.ssaTypeOfLocked(rt.Key()), w.ssaTypeOfLocked(rt.Elem()))
		case reflect.Bool:
			t = types.Typ[types.Bool]
		case reflect.Int:
			t = types.Typ[types.Int]
		case reflect.Int8:
			t = types.Typ[types.Int8]
		case reflect.Int16:
			t = types.Typ[types.Int16]
		case reflect.Int32:
			t = types.Typ[types.Int32]
		case reflect.Int64:
			t = types.Typ[types.Int64]
		case reflect.Uint:
			t = types.Typ[types.Uint]
		case reflect.Uint8:
			t = types.Typ[types.Uint8]
		case reflect.Uint16:
			t = types.Typ[types.Uint16]
		case reflect.Uint32:
			t = types.Typ[types.Uint32]
		case reflect.Uint64:
			t = types.Typ[types.Uint64]
		case reflect.Uintptr:
			t = types.Typ[types.Uintptr]
		case reflect.String:
			t = types.Typ[types.String]
		case reflect.Float64:
			t = types.Typ[types.Float64]
		case reflect.Float32:
			t = types.Typ[types.Float32]
		case reflect.Interface:
			t = w.emptyIfc
		case reflect.Func:
			t = types.NewSignatureType(nil, nil, nil, nil, nil, false)
		case reflect.Struct:
			t = types.NewStruct(nil, nil)
		default:
			t = types.Typ[types.Invalid]
		}
	}
	w.rtCache[rt] = t
	return t
}

// fromNative converts a native value into an engine value; st is the static
// type expected in the analysed program (may be nil).
func (e *Exec) fromNative(rv reflect.Value, st types.Type) Value {
	if !rv.IsValid() {
		if st != nil {
			return e.zero(st)
		}
		return nil
	}
	rv = roValue(rv)
	rt := rv.Type()
	if rt == rtConstValue || (rt.Kind() == reflect.Interface && rt.Implements(rtConstValue) && rt.NumMethod() == rtConstValue.NumMethod() && rt.PkgPath() == "go/constant") {
		if rv.IsNil() {
			return Iface{}
		}
		return Iface{T: cvFakeType, V: e.cvFromReal(rv.Interface().(constant.Value))}
	}
	switch rt.Kind() {
	case reflect.Bool:
		return e.tb.Bool(rv.Bool())
	case reflect.Int, reflect.Int64:
		return e.tb.BV(64, uint64(rv.Int()))
	case reflect.Int8:
		return e.tb.BV(8, uint64(rv.Int()))
	case reflect.Int16:
		return e.tb.BV(16, uint64(rv.Int()))
	case reflect.Int32:
		return e.tb.BV(32, uint64(rv.Int()))
	case reflect.Uint, reflect.Uint64, reflect.Uintptr:
		return e.tb.BV(64, rv.Uint())
	case reflect.Uint8:
		return e.tb.BV(8, rv.Uint())
	case reflect.Uint16:
		return e.tb.BV(16, rv.Uint())
	case reflect.Uint32:
		return e.tb.BV(32, rv.Uint())
	case reflect.String:
		return rv.String()
	case reflect.Float32, reflect.Float64:
		return FloatV(rv.Float())
	case reflect.Complex64, reflect.Complex128:
		return ComplexV(rv.Complex())
	case reflect.Ptr:
		if rv.IsNil() {
			return (*Value)(nil)
		}
		if rv.CanInterface() {
			switch p := rv.Interface().(type) {
			case *proxyType:
				return p.val
			case *proxyObject:
				return p.val
			}
		}
		return Native{rv}
	case reflect.Interface:
		if rv.IsNil() {
			return Iface{}
		}
		el := rv.Elem()
		if el.CanInterface() {
			switch p := el.Interface().(type) {
			case *proxyType:
				return Iface{T: p.t, V: p.val}
			case *proxyObject:
				return Iface{T: p.t, V: p.val}
			case *proxyError:
				return p.val
			case boxedValue:
				return Iface{T: p.t, V: p.v}
			case constant.Value:
				return Iface{T: cvFakeType, V: e.cvFromReal(p)}
			}
		}
		dt := e.w.ssaTypeOf(el.Type())
		return Iface{T: dt, V: e.fromNative(el, dt)}
	case reflect.Slice:
		if rv.IsNil() {
			return SliceV{IsNil: true}
		}
		var et types.Type
		if st != nil {
			if s, ok := st.Underlying().(*types.Slice); ok {
				et = s.Elem()
			}
		}
		data := make([]Value, rv.Len())
		for i := range data {
			data[i] = e.fromNative(rv.Index(i), et)
		}
		return SliceV{Data: data}
	case reflect.Struct, reflect.Array:
		if rv.CanAddr() {
			// detach: value semantics
			n := reflect.New(rt).Elem()
			n.Set(rv)
			return Native{n}
		}
		n := reflect.New(rt).Elem()
		n.Set(rv)
		return Native{n}
	case reflect.Map, reflect.Func, reflect.Chan, reflect.UnsafePointer:
		return Native{rv}
	}
	panic(fmt.Sprintf("fromNative: %v", rt))
}

// toNative converts an engine value to a native value of type rt.
func (e *Exec) toNative(v Value, rt reflect.Type) reflect.Value {
	switch rt.Kind() {
	case reflect.Bool:
		return reflect.ValueOf(e.concBool(v)).Convert(rt)
	case reflect.Int, reflect.Int8, reflect.Int16, reflect.Int32, reflect.Int64:
		r := reflect.New(rt).Elem()
		r.SetInt(e.concInt(v))
		return r
	case reflect.Uint, reflect.Uint8, reflect.Uint16, reflect.Uint32, reflect.Uint64, reflect.Uintptr:
		r := reflect.New(rt).Elem()
		r.SetUint(e.concretize(v.(*Term)))
		return r
	case reflect.String:
		r := reflect.New(rt).Elem()
		r.SetString(e.concString(v))
		return r
	case reflect.Float32, reflect.Float64:
		r := reflect.New(rt).Elem()
		r.SetFloat(float64(v.(FloatV)))
		return r
	case reflect.Complex64, reflect.Complex128:
		r := reflect.New(rt).Elem()
		r.SetComplex(complex128(v.(ComplexV)))
		return r
	case reflect.Ptr:
		switch x := v.(type) {
		case Native:
			if !x.V.IsValid() {
				return reflect.Zero(rt)
			}
			if x.V.Type().AssignableTo(rt) {
				return roValue(x.V)
			}
			if x.V.Type().ConvertibleTo(rt) {
				return roValue(x.V).Convert(rt)
			}
			e.outside("toNative: %v not assignable to %v", x.V.Type(), rt)
		case *Value:
			if x == nil {
				return reflect.Zero(rt)
			}
			if nv, ok := e.nativeOf[x]; ok && nv.Type() == rt {
				return nv
			}
			// marshal engine struct into fresh native memory (one-way)
			if n, ok := (*x).(Native); ok && reflect.PointerTo(n.V.Type()) == rt && n.V.CanAddr() {
				return n.V.Addr()
			}
			nv := reflect.New(rt.Elem())
			e.nativeOf[x] = nv
			nv.Elem().Set(e.toNative(*x, rt.Elem()))
			return nv
		case nil:
			return reflect.Zero(rt)
		}
	case reflect.Interface:
		return e.toNativeIface(v, rt)
	case reflect.Slice:
		switch s := v.(type) {
		case SliceV:
			if s.IsNil {
				return reflect.Zero(rt)
			}
			r := reflect.MakeSlice(rt, len(s.Data), len(s.Data))
			for i, x := range s.Data {
				r.Index(i).Set(e.toNative(x, rt.Elem()))
			}
			return r
		case Native:
			return roValue(s.V)
		case nil:
			return reflect.Zero(rt)
		}
	case reflect.Struct:
		switch s := v.(type) {
		case Native:
			if s.V.Type() == rt {
				return roValue(s.V)
			}
		case Struct:
			r := reflect.New(rt).Elem()
			if rt.NumField() != len(s) {
				e.outside("toNative: struct arity mismatch for %v", rt)
			}
			for i, f := range s {
				rwValue(r.Field(i)).Set(e.toNative(f, rt.Field(i).Type))
			}
			return r
		}
	case reflect.Array:
		switch s := v.(type) {
		case Native:
			return roValue(s.V)
		case Array:
			r := reflect.New(rt).Elem()
			for i, f := range s {
				r.Index(i).Set(e.toNative(f, rt.Elem()))
			}
			return r
		}
	case reflect.Map:
		switch s := v.(type) {
		case Native:
			return s.V
		case *MapV:
			if s == nil {
				return reflect.Zero(rt)
			}
			r := reflect.MakeMap(rt)
			for _, en := range s.order {
				r.SetMapIndex(e.toNative(en.k, rt.Key()), e.toNative(en.v, rt.Elem()))
			}
			return r
		}
	case reflect.Func:
		switch f := v.(type) {
		case nil:
			return reflect.Zero(rt)
		case Native:
			return f.V
		case *ssa.Function, *Closure:
			if c, ok := f.(*Closure); ok && c == nil {
				return reflect.Zero(rt)
			}
			return reflect.MakeFunc(rt, func(in []reflect.Value) []reflect.Value {
				args := make([]Value, len(in))
				for i, a := range in {
					args[i] = e.fromNative(a, nil)
				}
				res := e.callFrom(nil, f, args)
				out := make([]reflect.Value, rt.NumOut())
				switch rt.NumOut() {
				case 0:
				case 1:
					out[0] = e.toNative(res, rt.Out(0))
				default:
					for i, r := range res.(Tuple) {
						out[i] = e.toNative(r, rt.Out(i))
					}
				}
				return out
			})
		}
	case reflect.UnsafePointer:
		if p, ok := v.(*Value); ok && p == nil {
			return reflect.Zero(rt)
		}
	}
	e.outside("toNative: cannot convert %T to %v", v, rt)
	panic("unreachable")
}

func (e *Exec) toNativeIface(v Value, rt reflect.Type) reflect.Value {
	ifc, ok := v.(Iface)
	if !ok {
		// statically typed value passed where interface expected (should not happen: MakeInterface precedes)
		switch x := v.(type) {
		case Native:
			r := reflect.New(rt).Elem()
			r.Set(roValue(x.V))
			return r
		case nil:
			return reflect.Zero(rt)
		}
		e.outside("toNativeIface: non-interface %T for %v", v, rt)
	}
	if ifc.T == nil {
		return reflect.Zero(rt)
	}
	r := reflect.New(rt).Elem()
	set := func(x reflect.Value) reflect.Value {
		if !x.Type().AssignableTo(rt) {
			e.outside("toNativeIface: %v does not implement %v", x.Type(), rt)
		}
		r.Set(x)
		return r
	}
	switch x := ifc.V.(type) {
	case Native:
		return set(roValue(x.V))
	case *CV:
		return set(reflect.ValueOf(e.cvToReal(x)))
	case string:
		if len(x) > 3 && x[:3] == "RT:" && rt == rtError {
			return set(reflect.ValueOf(fmt.Errorf("%s", x[3:])))
		}
	}
	if p, isPtr := ifc.V.(*Value); isPtr && p == nil {
		// typed nil pointer inside an interface
		if prt, ok := e.reflectTypeOf(ifc.T); ok && prt.Kind() == reflect.Ptr {
			return set(reflect.Zero(prt))
		}
	}
	// engine value
	if rt == rtTypesType || (rt.Kind() == reflect.Interface && rtTypesType.Implements(rt) && rt.NumMethod() > 0 && e.hasMethod(ifc.T, "Underlying")) {
		if p, isPtr := ifc.V.(*Value); isPtr {
			if px, ok := e.proxies[p]; ok {
				return set(reflect.ValueOf(px))
			}
			px := &proxyType{e: e, val: ifc.V, t: ifc.T}
			e.proxies[p] = px
			return set(reflect.ValueOf(px))
		}
		return set(reflect.ValueOf(&proxyType{e: e, val: ifc.V, t: ifc.T}))
	}
	if rt == rtTypesObj {
		// engine struct embedding a native types.Object
		if p, isPtr := ifc.V.(*Value); isPtr && p != nil {
			if s, isS := (*p).(Struct); isS {
				for _, f := range s {
					if n, isN := f.(Native); isN && n.V.IsValid() && n.V.Type().Implements(rtTypesObj) {
						return set(reflect.ValueOf(&proxyObject{Object: n.V.Interface().(types.Object), e: e, val: ifc.V, t: ifc.T}))
					}
				}
			}
		}
	}
	if rt == rtError || (rt.NumMethod() == 1 && rt.Method(0).Name == "Error") {
		if e.hasMethod(ifc.T, "Error") {
			return set(reflect.ValueOf(&proxyError{e: e, val: ifc}))
		}
	}
	if rt.NumMethod() == 1 && rt.Method(0).Name == "Import" && e.hasMethod(ifc.T, "Import") {
		return set(reflect.ValueOf(&proxyImporter{e: e, val: ifc}))
	}
	if rt.NumMethod() == 1 && rt.Method(0).Name == "Write" && e.hasMethod(ifc.T, "Write") {
		return set(reflect.ValueOf(&proxyWriter{e: e, val: ifc}))
	}
	if rt.NumMethod() == 0 {
		switch ifc.V.(type) {
		case *Value, Struct, Array, SliceV, *MapV, *Closure, Iface, *symBig:
			// engine-memory value travelling through a native `any` slot: keep identity
			return set(reflect.ValueOf(boxedValue{v: ifc.V, t: ifc.T}))
		}
		// scalars: pass a concrete Go value
		return set(reflect.ValueOf(e.printable(ifc)))
	}
	e.outside("toNativeIface: cannot pass %v as %v", ifc.T, rt)
	panic("unreachable")
}

// printable converts an interface value to a native Go value for formatting.
func (e *Exec) printable(ifc Iface) interface{} {
	if ifc.T == nil {
		return nil
	}
	switch x := ifc.V.(type) {
	case *Term:
		if rt, ok := e.reflectTypeOf(ifc.T); ok && rt.Kind() != reflect.Interface {
			return e.toNative(x, rt).Interface()
		}
		if e.hasMethod(ifc.T, "String") {
			return e.concString(e.callMethodByName(ifc, "String"))
		}
		if x.sort.K == SBool {
			return e.concBool(x)
		}
		if _, signed, ok := isIntType(ifc.T); ok && !signed {
			return e.concretize(x)
		}
		return e.concInt(x)
	case string:
		if len(x) > 3 && x[:3] == "RT:" {
			return x[3:]
		}
		return x
	case *SymStr:
		return e.concString(x)
	case FloatV:
		return float64(x)
	case ComplexV:
		return complex128(x)
	case Native:
		if x.V.IsValid() && x.V.CanInterface() {
			return x.V.Interface()
		}
		return "<native>"
	case *CV:
		if x.concrete() {
			return e.cvToReal(x)
		}
		return "<const>"
	}
	if e.hasMethod(ifc.T, "Error") {
		return e.concString(e.callMethodByName(ifc, "Error"))
	}
	if e.hasMethod(ifc.T, "String") {
		return e.concString(e.callMethodByName(ifc, "String"))
	}
	return "<" + ifc.T.String() + ">"
}
