package main

// Terms: SMT expressions with eager constant folding and hash-consing.

import (
	"fmt"
	"math/big"
	"strings"
)

type SortKind uint8

const (
	SBool SortKind = iota
	SBV
	SInt
	SReal
)

type Sort struct {
	K SortKind
	W int // bit width for SBV
}

func (s Sort) String() string {
	switch s.K {
	case SBool:
		return "Bool"
	case SBV:
		return fmt.Sprintf("(_ BitVec %d)", s.W)
	case SInt:
		return "Int"
	case SReal:
		return "Real"
	}
	return "?"
}

var (
	sortBool = Sort{K: SBool}
	sortInt  = Sort{K: SInt}
	sortReal = Sort{K: SReal}
)

func sortBV(w int) Sort { return Sort{K: SBV, W: w} }

type Term struct {
	id   int
	op   string // "const", "var", or SMT operator name; "uf:<name>" for uninterpreted
	sort Sort
	args []*Term
	u    uint64   // BV const (w<=64) / Bool const (0/1)
	i    *big.Int // Int const
	r    *big.Rat // Real const
	name string   // var name
	p1   int      // extract hi / extend amount / int2bv width
	p2   int      // extract lo
}

func (t *Term) IsConst() bool { return t.op == "const" }

type TermBuilder struct {
	tab  map[string]*Term
	next int
	vars map[string]*Term
}

func NewTermBuilder() *TermBuilder {
	return &TermBuilder{tab: map[string]*Term{}, vars: map[string]*Term{}}
}

func (tb *TermBuilder) intern(t *Term) *Term {
	var sb strings.Builder
	sb.WriteString(t.op)
	sb.WriteByte('|')
	sb.WriteString(t.sort.String())
	switch t.op {
	case "const":
		switch t.sort.K {
		case SBool, SBV:
			fmt.Fprintf(&sb, "|%d", t.u)
		case SInt:
			sb.WriteString("|" + t.i.String())
		case SReal:
			sb.WriteString("|" + t.r.String())
		}
	case "var":
		sb.WriteString("|" + t.name)
	default:
		fmt.Fprintf(&sb, "|%d,%d", t.p1, t.p2)
		for _, a := range t.args {
			fmt.Fprintf(&sb, "|%d", a.id)
		}
	}
	k := sb.String()
	if x, ok := tb.tab[k]; ok {
		return x
	}
	tb.next++
	t.id = tb.next
	tb.tab[k] = t
	return t
}

func mask(w int) uint64 {
	if w >= 64 {
		return ^uint64(0)
	}
	return (uint64(1) << uint(w)) - 1
}

func (tb *TermBuilder) Bool(b bool) *Term {
	u := uint64(0)
	if b {
		u = 1
	}
	return tb.intern(&Term{op: "const", sort: sortBool, u: u})
}
func (tb *TermBuilder) BV(w int, v uint64) *Term {
	return tb.intern(&Term{op: "const", sort: sortBV(w), u: v & mask(w)})
}
func (tb *TermBuilder) Int(v *big.Int) *Term {
	return tb.intern(&Term{op: "const", sort: sortInt, i: new(big.Int).Set(v)})
}
func (tb *TermBuilder) Int64(v int64) *Term { return tb.Int(big.NewInt(v)) }
func (tb *TermBuilder) Real(v *big.Rat) *Term {
	return tb.intern(&Term{op: "const", sort: sortReal, r: new(big.Rat).Set(v)})
}
func (tb *TermBuilder) Var(name string, s Sort) *Term {
	if v, ok := tb.vars[name]; ok {
		if v.sort != s {
			panic(fmt.Sprintf("var %s redeclared with sort %v (was %v)", name, s, v.sort))
		}
		return v
	}
	v := tb.intern(&Term{op: "var", sort: s, name: name})
	tb.vars[name] = v
	return v
}

func (t *Term) boolVal() (bool, bool) {
	if t.op == "const" && t.sort.K == SBool {
		return t.u != 0, true
	}
	return false, false
}

// signed value of a BV const
func (t *Term) sval() int64 {
	w := t.sort.W
	v := t.u
	if w < 64 && v&(1<<uint(w-1)) != 0 {
		v |= ^mask(w)
	}
	return int64(v)
}

func (tb *TermBuilder) mk(op string, s Sort, args ...*Term) *Term {
	return tb.intern(&Term{op: op, sort: s, args: args})
}

// ---------- Bool ----------

func (tb *TermBuilder) Not(a *Term) *Term {
	if b, ok := a.boolVal(); ok {
		return tb.Bool(!b)
	}
	if a.op == "not" {
		return a.args[0]
	}
	return tb.mk("not", sortBool, a)
}

func (tb *TermBuilder) And(a, b *Term) *Term {
	if v, ok := a.boolVal(); ok {
		if v {
			return b
		}
		return a
	}
	if v, ok := b.boolVal(); ok {
		if v {
			return a
		}
		return b
	}
	if a == b {
		return a
	}
	return tb.mk("and", sortBool, a, b)
}

func (tb *TermBuilder) Or(a, b *Term) *Term {
	if v, ok := a.boolVal(); ok {
		if v {
			return a
		}
		return b
	}
	if v, ok := b.boolVal(); ok {
		if v {
			return b
		}
		return a
	}
	if a == b {
		return a
	}
	return tb.mk("or", sortBool, a, b)
}

func (tb *TermBuilder) Ite(c, a, b *Term) *Term {
	if v, ok := c.boolVal(); ok {
		if v {
			return a
		}
		return b
	}
	if a == b {
		return a
	}
	if a.sort != b.sort {
		panic("ite sort mismatch")
	}
	if a.sort.K == SBool {
		if av, ok := a.boolVal(); ok {
			if bv, ok2 := b.boolVal(); ok2 {
				if av && !bv {
					return c
				}
				if !av && bv {
					return tb.Not(c)
				}
			}
		}
	}
	return tb.mk("ite", a.sort, c, a, b)
}

func (tb *TermBuilder) Eq(a, b *Term) *Term {
	if a == b {
		return tb.Bool(true)
	}
	if a.sort != b.sort {
		panic(fmt.Sprintf("eq sort mismatch %v %v", a.sort, b.sort))
	}
	if a.IsConst() && b.IsConst() {
		return tb.Bool(false) // hash-consed: distinct consts differ
	}
	if a.sort.K == SBool {
		if v, ok := a.boolVal(); ok {
			if v {
				return b
			}
			return tb.Not(b)
		}
		if v, ok := b.boolVal(); ok {
			if v {
				return a
			}
			return tb.Not(a)
		}
	}
	if a.id > b.id {
		a, b = b, a
	}
	return tb.mk("=", sortBool, a, b)
}

// ---------- BV ----------

func (tb *TermBuilder) bvBin(op string, a, b *Term) *Term {
	w := a.sort.W
	if a.sort != b.sort {
		panic(fmt.Sprintf("bv %s sort mismatch %v %v", op, a.sort, b.sort))
	}
	if a.IsConst() && b.IsConst() {
		x, y := a.u, b.u
		m := mask(w)
		switch op {
		case "bvadd":
			return tb.BV(w, x+y)
		case "bvsub":
			return tb.BV(w, x-y)
		case "bvmul":
			return tb.BV(w, x*y)
		case "bvand":
			return tb.BV(w, x&y)
		case "bvor":
			return tb.BV(w, x|y)
		case "bvxor":
			return tb.BV(w, x^y)
		case "bvudiv":
			if y == 0 {
				return tb.BV(w, m)
			}
			return tb.BV(w, x/y)
		case "bvurem":
			if y == 0 {
				return a
			}
			return tb.BV(w, x%y)
		case "bvsdiv":
			if y == 0 {
				break
			}
			sx, sy := a.sval(), b.sval()
			if sy == -1 {
				return tb.BV(w, uint64(-sx))
			}
			return tb.BV(w, uint64(sx/sy))
		case "bvsrem":
			if y == 0 {
				break
			}
			sx, sy := a.sval(), b.sval()
			if sy == -1 {
				return tb.BV(w, 0)
			}
			return tb.BV(w, uint64(sx%sy))
		case "bvshl":
			if y >= uint64(w) {
				return tb.BV(w, 0)
			}
			return tb.BV(w, x<<y)
		case "bvlshr":
			if y >= uint64(w) {
				return tb.BV(w, 0)
			}
			return tb.BV(w, x>>y)
		case "bvashr":
			sx := a.sval()
			if y >= uint64(w) {
				y = uint64(w - 1)
			}
			if y > 63 {
				y = 63
			}
			return tb.BV(w, uint64(sx>>y))
		}
	}
	// light identities
	switch op {
	case "bvadd", "bvor", "bvxor":
		if a.IsConst() && a.u == 0 {
			return b
		}
		if b.IsConst() && b.u == 0 {
			return a
		}
	case "bvsub", "bvshl", "bvlshr", "bvashr":
		if b.IsConst() && b.u == 0 {
			return a
		}
	case "bvand":
		if a.IsConst() && a.u == 0 {
			return a
		}
		if b.IsConst() && b.u == 0 {
			return b
		}
		if a.IsConst() && a.u == mask(w) {
			return b
		}
		if b.IsConst() && b.u == mask(w) {
			return a
		}
	case "bvmul":
		if a.IsConst() && a.u == 1 {
			return b
		}
		if b.IsConst() && b.u == 1 {
			return a
		}
	}
	return tb.mk(op, a.sort, a, b)
}

func (tb *TermBuilder) bvCmp(op string, a, b *Term) *Term {
	if a.sort != b.sort {
		panic(fmt.Sprintf("bv %s sort mismatch %v %v", op, a.sort, b.sort))
	}
	if a.IsConst() && b.IsConst() {
		switch op {
		case "bvult":
			return tb.Bool(a.u < b.u)
		case "bvule":
			return tb.Bool(a.u <= b.u)
		case "bvslt":
			return tb.Bool(a.sval() < b.sval())
		case "bvsle":
			return tb.Bool(a.sval() <= b.sval())
		}
	}
	if a == b {
		return tb.Bool(op == "bvule" || op == "bvsle")
	}
	return tb.mk(op, sortBool, a, b)
}

func (tb *TermBuilder) BvNot(a *Term) *Term {
	if a.IsConst() {
		return tb.BV(a.sort.W, ^a.u)
	}
	return tb.mk("bvnot", a.sort, a)
}
func (tb *TermBuilder) BvNeg(a *Term) *Term {
	if a.IsConst() {
		return tb.BV(a.sort.W, -a.u)
	}
	return tb.mk("bvneg", a.sort, a)
}

func (tb *TermBuilder) Extract(hi, lo int, a *Term) *Term {
	if lo == 0 && hi == a.sort.W-1 {
		return a
	}
	if a.IsConst() {
		return tb.BV(hi-lo+1, a.u>>uint(lo))
	}
	return tb.intern(&Term{op: "extract", sort: sortBV(hi - lo + 1), args: []*Term{a}, p1: hi, p2: lo})
}
func (tb *TermBuilder) ZExt(n int, a *Term) *Term {
	if n == 0 {
		return a
	}
	if a.IsConst() {
		return tb.BV(a.sort.W+n, a.u)
	}
	return tb.intern(&Term{op: "zero_extend", sort: sortBV(a.sort.W + n), args: []*Term{a}, p1: n})
}
func (tb *TermBuilder) SExt(n int, a *Term) *Term {
	if n == 0 {
		return a
	}
	if a.IsConst() {
		return tb.BV(a.sort.W+n, uint64(a.sval()))
	}
	return tb.intern(&Term{op: "sign_extend", sort: sortBV(a.sort.W + n), args: []*Term{a}, p1: n})
}

// Resize converts a BV to width w, sign- or zero-extending.
func (tb *TermBuilder) Resize(a *Term, w int, signed bool) *Term {
	aw := a.sort.W
	switch {
	case w == aw:
		return a
	case w < aw:
		return tb.Extract(w-1, 0, a)
	case signed:
		return tb.SExt(w-aw, a)
	default:
		return tb.ZExt(w-aw, a)
	}
}

// ---------- Int / Real ----------

func (tb *TermBuilder) arith(op string, a, b *Term) *Term {
	if a.sort != b.sort {
		panic(fmt.Sprintf("arith %s sort mismatch %v %v", op, a.sort, b.sort))
	}
	if a.IsConst() && b.IsConst() {
		if a.sort.K == SInt {
			x, y := a.i, b.i
			switch op {
			case "+":
				return tb.Int(new(big.Int).Add(x, y))
			case "-":
				return tb.Int(new(big.Int).Sub(x, y))
			case "*":
				return tb.Int(new(big.Int).Mul(x, y))
			case "div": // SMT-LIB: floor for y>0, ceil for y<0 (Euclidean)
				if y.Sign() != 0 {
					q, _ := new(big.Int).DivMod(x, y, new(big.Int))
					return tb.Int(q)
				}
			case "mod":
				if y.Sign() != 0 {
					_, m := new(big.Int).DivMod(x, y, new(big.Int))
					return tb.Int(m)
				}
			}
		} else {
			x, y := a.r, b.r
			switch op {
			case "+":
				return tb.Real(new(big.Rat).Add(x, y))
			case "-":
				return tb.Real(new(big.Rat).Sub(x, y))
			case "*":
				return tb.Real(new(big.Rat).Mul(x, y))
			case "/":
				if y.Sign() != 0 {
					return tb.Real(new(big.Rat).Quo(x, y))
				}
			}
		}
	}
	return tb.mk(op, a.sort, a, b)
}

func (tb *TermBuilder) Add(a, b *Term) *Term  { return tb.arith("+", a, b) }
func (tb *TermBuilder) Sub(a, b *Term) *Term  { return tb.arith("-", a, b) }
func (tb *TermBuilder) Mul(a, b *Term) *Term  { return tb.arith("*", a, b) }
func (tb *TermBuilder) IDiv(a, b *Term) *Term { return tb.arith("div", a, b) }
func (tb *TermBuilder) IMod(a, b *Term) *Term { return tb.arith("mod", a, b) }
func (tb *TermBuilder) RDiv(a, b *Term) *Term { return tb.arith("/", a, b) }

func (tb *TermBuilder) Neg(a *Term) *Term {
	if a.sort.K == SInt {
		return tb.Sub(tb.Int64(0), a)
	}
	return tb.Sub(tb.Real(new(big.Rat)), a)
}

func cmpConst(a, b *Term) int {
	if a.sort.K == SInt {
		return a.i.Cmp(b.i)
	}
	return a.r.Cmp(b.r)
}

func (tb *TermBuilder) Lt(a, b *Term) *Term {
	if a.sort != b.sort {
		panic("lt sort mismatch")
	}
	if a.IsConst() && b.IsConst() {
		return tb.Bool(cmpConst(a, b) < 0)
	}
	if a == b {
		return tb.Bool(false)
	}
	return tb.mk("<", sortBool, a, b)
}
func (tb *TermBuilder) Le(a, b *Term) *Term {
	if a.sort != b.sort {
		panic("le sort mismatch")
	}
	if a.IsConst() && b.IsConst() {
		return tb.Bool(cmpConst(a, b) <= 0)
	}
	if a == b {
		return tb.Bool(true)
	}
	return tb.mk("<=", sortBool, a, b)
}

func (tb *TermBuilder) ToReal(a *Term) *Term {
	if a.sort.K == SReal {
		return a
	}
	if a.IsConst() {
		return tb.Real(new(big.Rat).SetInt(a.i))
	}
	return tb.mk("to_real", sortReal, a)
}

// ToInt is floor.
func (tb *TermBuilder) ToInt(a *Term) *Term {
	if a.sort.K == SInt {
		return a
	}
	if a.IsConst() {
		q := new(big.Int)
		m := new(big.Int)
		q.DivMod(a.r.Num(), a.r.Denom(), m)
		return tb.Int(q)
	}
	if a.op == "to_real" {
		return a.args[0]
	}
	return tb.mk("to_int", sortInt, a)
}

func (tb *TermBuilder) IsIntReal(a *Term) *Term {
	if a.IsConst() {
		return tb.Bool(a.r.IsInt())
	}
	if a.op == "to_real" {
		return tb.Bool(true)
	}
	return tb.mk("is_int", sortBool, a)
}

// Bv2Int interprets a as unsigned or signed integer.
func (tb *TermBuilder) Bv2Int(a *Term, signed bool) *Term {
	if a.IsConst() {
		if signed {
			return tb.Int64(a.sval())
		}
		return tb.Int(new(big.Int).SetUint64(a.u))
	}
	if !signed {
		return tb.mk("bv2nat", sortInt, a)
	}
	return tb.mk("sbv2int", sortInt, a) // printed as ite(bvslt a 0, bv2nat a - 2^w, bv2nat a)
}

func (tb *TermBuilder) Int2Bv(a *Term, w int) *Term {
	if a.IsConst() {
		m := new(big.Int).Lsh(big.NewInt(1), uint(w))
		v := new(big.Int).Mod(a.i, m)
		return tb.BV(w, v.Uint64())
	}
	return tb.intern(&Term{op: "int2bv", sort: sortBV(w), args: []*Term{a}, p1: w})
}

func (tb *TermBuilder) UF(name string, s Sort, args ...*Term) *Term {
	return tb.intern(&Term{op: "uf:" + name, sort: s, args: args})
}

// ---------- printing ----------

func smtName(s string) string {
	ok := true
	for _, c := range s {
		if !(c >= 'a' && c <= 'z' || c >= 'A' && c <= 'Z' || c >= '0' && c <= '9' || c == '_' || c == '.') {
			ok = false
		}
	}
	if ok && s != "" && !(s[0] >= '0' && s[0] <= '9') {
		return s
	}
	return "|" + strings.ReplaceAll(s, "|", "!") + "|"
}

func smtInt(v *big.Int) string {
	if v.Sign() < 0 {
		return "(- " + new(big.Int).Neg(v).String() + ")"
	}
	return v.String()
}

func smtReal(v *big.Rat) string {
	n, d := v.Num(), v.Denom()
	s := new(big.Int).Abs(n).String() + ".0"
	if !v.IsInt() {
		s = "(/ " + s + " " + d.String() + ".0)"
	}
	if n.Sign() < 0 {
		s = "(- " + s + ")"
	}
	return s
}

func (t *Term) constSMT() string {
	switch t.sort.K {
	case SBool:
		if t.u != 0 {
			return "true"
		}
		return "false"
	case SBV:
		w := t.sort.W
		if w%4 == 0 {
			return fmt.Sprintf("#x%0*x", w/4, t.u)
		}
		return fmt.Sprintf("#b%0*b", w, t.u)
	case SInt:
		return smtInt(t.i)
	case SReal:
		return smtReal(t.r)
	}
	return "?"
}

// String renders the term fully inline (for debugging / samples).
func (t *Term) String() string {
	switch t.op {
	case "const":
		return t.constSMT()
	case "var":
		return smtName(t.name)
	}
	var sb strings.Builder
	if t.op == "sbv2int" {
		return "(sbv2int " + t.args[0].String() + ")"
	}
	sb.WriteString("(" + t.head())
	for _, a := range t.args {
		sb.WriteString(" " + a.String())
	}
	sb.WriteString(")")
	return sb.String()
}

func (t *Term) head() string {
	switch t.op {
	case "extract":
		return fmt.Sprintf("(_ extract %d %d)", t.p1, t.p2)
	case "zero_extend", "sign_extend":
		return fmt.Sprintf("(_ %s %d)", t.op, t.p1)
	case "int2bv":
		return fmt.Sprintf("(_ int2bv %d)", t.p1)
	}
	if strings.HasPrefix(t.op, "uf:") {
		return smtName(t.op[3:])
	}
	return t.op
}

// size (capped) for deciding whether to name a term
func (t *Term) small() bool {
	return t.op == "const" || t.op == "var"
}
