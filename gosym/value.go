package main

// Value model: concrete structure, symbolic scalars.

import (
	"fmt"
	"go/types"
	"reflect"
	"sort"
	"strings"
)

type Value = interface{}

type Struct []Value
type Array []Value
type Tuple []Value

// SliceV: len(Data)=len, cap(Data)=cap; shares backing store through Go slices.
type SliceV struct {
	Data  []Value
	IsNil bool
}

type Iface struct {
	T types.Type // dynamic type in the analysed program's type universe; nil => nil interface
	V Value
}

type Closure struct {
	Fn  interface{} // *ssa.Function
	Env []Value
}

// Native wraps a value living in native memory (go/types objects, bytes.Buffer, ...).
type Native struct {
	V reflect.Value
}

// SymStr is a finite-choice symbolic string: value = Opts[Sel].
type SymStr struct {
	Opts []string
	Sel  *Term // BV8, constrained 0 <= Sel < len(Opts)
}

// FloatV / ComplexV are concrete.
type FloatV float64
type ComplexV complex128

// Chan is unsupported beyond nil-ness.
type ChanV struct{ buf []Value }

type mapEntry struct {
	k, v Value
}

type MapV struct {
	keyT  types.Type
	conc  map[string]*mapEntry
	order []*mapEntry
	nsym  int
}

func newMap(keyT types.Type) *MapV {
	return &MapV{keyT: keyT, conc: map[string]*mapEntry{}}
}

// concKey returns a canonical string for a fully concrete comparable value.
func concKey(v Value) (string, bool) {
	switch x := v.(type) {
	case *Term:
		if x.IsConst() {
			return fmt.Sprintf("t%d:%d", x.sort.W, x.u), true
		}
		return "", false
	case string:
		return "s" + x, true
	case *SymStr:
		return "", false
	case FloatV:
		return fmt.Sprintf("f%v", float64(x)), true
	case *Value:
		return fmt.Sprintf("p%p", x), true
	case Native:
		switch x.V.Kind() {
		case reflect.Ptr, reflect.Map, reflect.Chan, reflect.Func, reflect.UnsafePointer:
			return fmt.Sprintf("n%x", x.V.Pointer()), true
		}
		if x.V.CanInterface() {
			return fmt.Sprintf("N%T:%v", x.V.Interface(), x.V.Interface()), true
		}
		return "", false
	case Iface:
		if x.T == nil {
			return "i<nil>", true
		}
		k, ok := concKey(x.V)
		if !ok {
			return "", false
		}
		return "i" + typeKey(x.T) + "|" + k, true
	case Struct:
		var sb strings.Builder
		sb.WriteString("S{")
		for _, f := range x {
			k, ok := concKey(f)
			if !ok {
				return "", false
			}
			sb.WriteString(k + ",")
		}
		return sb.String() + "}", true
	case Array:
		var sb strings.Builder
		sb.WriteString("A{")
		for _, f := range x {
			k, ok := concKey(f)
			if !ok {
				return "", false
			}
			sb.WriteString(k + ",")
		}
		return sb.String() + "}", true
	case *MapV:
		return fmt.Sprintf("m%p", x), true
	case *Closure:
		return fmt.Sprintf("c%p", x), true
	case *CV:
		return fmt.Sprintf("cv%p", x), true
	case nil:
		return "nil", true
	}
	return fmt.Sprintf("?%T%p", v, v), true
}

var typeKeyCache = map[types.Type]string{}

func typeKey(t types.Type) string {
	// not goroutine-safe cache avoided: compute directly
	return types.TypeString(t, nil)
}

func (m *MapV) Len() int { return len(m.order) }

// sortedNativeKeys is unused; kept for deterministic debugging dumps.
func sortedKeys(m map[string]*mapEntry) []string {
	ks := make([]string, 0, len(m))
	for k := range m {
		ks = append(ks, k)
	}
	sort.Strings(ks)
	return ks
}

// ---------- type helpers (analysed program's universe) ----------

func under(t types.Type) types.Type { return t.Underlying() }

func deref(t types.Type) types.Type {
	if p, ok := t.Underlying().(*types.Pointer); ok {
		return p.Elem()
	}
	panic(fmt.Sprintf("deref of non-pointer %v", t))
}

func intWidth(b *types.Basic) (w int, signed bool, ok bool) {
	switch b.Kind() {
	case types.Int8:
		return 8, true, true
	case types.Int16:
		return 16, true, true
	case types.Int32, types.UntypedRune:
		return 32, true, true
	case types.Int64, types.Int, types.UntypedInt:
		return 64, true, true
	case types.Uint8:
		return 8, false, true
	case types.Uint16:
		return 16, false, true
	case types.Uint32:
		return 32, false, true
	case types.Uint64, types.Uint, types.Uintptr:
		return 64, false, true
	}
	return 0, false, false
}

func isIntType(t types.Type) (int, bool, bool) {
	if b, ok := t.Underlying().(*types.Basic); ok {
		return intWidth(b)
	}
	return 0, false, false
}

func isFloatType(t types.Type) bool {
	if b, ok := t.Underlying().(*types.Basic); ok {
		return b.Info()&types.IsFloat != 0
	}
	return false
}
func isComplexType(t types.Type) bool {
	if b, ok := t.Underlying().(*types.Basic); ok {
		return b.Info()&types.IsComplex != 0
	}
	return false
}
func isStringType(t types.Type) bool {
	if b, ok := t.Underlying().(*types.Basic); ok {
		return b.Info()&types.IsString != 0
	}
	return false
}
func isBoolType(t types.Type) bool {
	if b, ok := t.Underlying().(*types.Basic); ok {
		return b.Info()&types.IsBoolean != 0
	}
	return false
}
