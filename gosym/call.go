package main

import (
	"go/ast"
	"fmt"
	"go/types"
	"reflect"
	"strings"

	"golang.org/x/tools/go/ssa"
)

type intrinsicFn func(e *Exec, caller *frame, fn *ssa.Function, args []Value) Value

var intrinsics = map[string]intrinsicFn{}

func fnKey(fn *ssa.Function) string {
	if o := fn.Origin(); o != nil {
		return o.String()
	}
	return fn.String()
}

func (e *Exec) fnPkgPath(fn *ssa.Function) string {
	if fn.Pkg != nil {
		return fn.Pkg.Pkg.Path()
	}
	if o := fn.Origin(); o != nil && o.Pkg != nil {
		return o.Pkg.Pkg.Path()
	}
	if fn.Object() != nil && fn.Object().Pkg() != nil {
		return fn.Object().Pkg().Path()
	}
	// synthetic wrappers / bound methods: derive from receiver or parent
	if p := fn.Parent(); p != nil {
		return e.fnPkgPath(p)
	}
	return ""
}

var ssaFuncOverride = map[string]bool{
	"(*go/types.Checker).isTerminating":       true,
	"(*go/types.Checker).isTerminatingList":   true,
	"(*go/types.Checker).isTerminatingSwitch": true,
	"go/types.hasBreak":                       true,
	"go/types.hasBreakList":                   true,
	"(*go/types.Checker).isPanic":             true,
}

func (e *Exec) callFrom(caller *frame, fn Value, args []Value) Value {
	switch f := fn.(type) {
	case *ssa.Function:
		return e.callFunction(caller, f, args, nil)
	case *Closure:
		if f == nil {
			e.fault("call of nil func")
		}
		return e.callFunction(caller, f.Fn.(*ssa.Function), args, f.Env)
	case *ssa.Builtin:
		return e.callBuiltin(caller, f, args)
	case *methodRef:
		return e.callMethodRef(f, args)
	case Native:
		if f.V.Kind() == reflect.Func {
			if f.V.IsNil() {
				e.fault("call of nil func (native)")
			}
			return e.callReflect(f.V, args, nil, "native func value")
		}
	case nil:
		e.fault("call of nil func")
	}
	panic(fmt.Sprintf("call of %T", fn))
}

func hasNativeRecv(fn *ssa.Function, args []Value) bool {
	if fn.Signature.Recv() == nil || len(args) == 0 {
		return false
	}
	_, ok := args[0].(Native)
	return ok
}

func (e *Exec) callFunction(caller *frame, fn *ssa.Function, args []Value, env []Value) Value {
	key := fnKey(fn)
	if len(e.stubs) > 0 {
		if st, ok := e.stubs[key]; ok {
			e.res.noteIntrinsic("stub:" + key)
			return e.callFrom(caller, st, args)
		}
	}
	if len(e.stubsPre) > 0 {
		if st, ok := e.stubsPre[key]; ok {
			// pre-stub: returns (handled, results...); falls through to the real function when not handled
			r := e.callFrom(caller, st, args).(Tuple)
			if e.concBool(r[0]) {
				e.res.noteIntrinsic("stubpre:" + key)
				if len(r) == 2 {
					return r[1]
				}
				return Tuple(r[1:])
			}
		}
	}
	if in, ok := intrinsics[key]; ok {
		e.res.noteIntrinsic(key)
		return in(e, caller, fn, args)
	}
	if fn.Synthetic != "" && fn.Signature.Recv() == nil && len(fn.FreeVars) > 0 || strings.HasSuffix(fn.Name(), "$bound") || strings.HasSuffix(fn.Name(), "$thunk") {
		return e.callSSAFrame(caller, fn, args, env)
	}
	path := e.fnPkgPath(fn)
	if hasNativeRecv(fn, args) {
		if !ssaFuncOverride[key] {
			return e.callNativeMethod(fn, args)
		}
	}
	if path == "" || e.w.ssaExecPkg(path) || ssaFuncOverride[key] {
		return e.callSSAFrame(caller, fn, args, env)
	}
	// native package function
	if fn.Signature.Recv() != nil {
		// method with a non-native receiver
		if rv, ok := e.scalarRecv(fn, args); ok {
			return e.callReflect(rv.MethodByName(fn.Name()), args[1:], fn.Signature, key)
		}
		if p, ok := args[0].(*Value); ok && p == nil {
			// nil receiver of native pointer type
			if rt, ok2 := e.reflectTypeOf(fn.Signature.Recv().Type()); ok2 {
				return e.callReflect(reflect.Zero(rt).MethodByName(fn.Name()), args[1:], fn.Signature, key)
			}
		}
		// engine-memory receiver of a native-package type: interpret the method
		return e.callSSAFrame(caller, fn, args, env)
	}
	if rv, ok := nativeFuncs[key]; ok {
		return e.callReflect(rv, args, fn.Signature, key)
	}
	if fn.Synthetic != "" {
		return e.callSSAFrame(caller, fn, args, env)
	}
	// not in registry: interpret if a body is available (pure helpers)
	return e.callSSAFrame(caller, fn, args, env)
}

func (r *HarnessResult) noteIntrinsic(k string) {
	r.mu.Lock()
	r.Intrinsics[k]++
	r.mu.Unlock()
}
func (r *HarnessResult) noteNative(k string) {
	r.mu.Lock()
	r.Natives[k]++
	r.mu.Unlock()
}

// resolveLinkname finds the target of a body-less function declared with //go:linkname.
func (e *Exec) resolveLinkname(fn *ssa.Function) *ssa.Function {
	fd, ok := fn.Syntax().(*ast.FuncDecl)
	if !ok || fd.Doc == nil {
		return nil
	}
	for _, c := range fd.Doc.List {
		f := strings.Fields(c.Text)
		if len(f) == 3 && f[0] == "//go:linkname" && f[1] == fn.Name() {
			target := f[2]
			// forms: pkg/path.Func  or  pkg/path.(*T).m  or pkg/path.T.m
			if i := strings.Index(target, ".("); i >= 0 {
				pkgPath := target[:i]
				rest := target[i+2:] // *T).m
				j := strings.Index(rest, ").")
				if j < 0 {
					return nil
				}
				tname, mname := strings.TrimPrefix(rest[:j], "*"), rest[j+2:]
				p := e.w.prog.ImportedPackage(pkgPath)
				if p == nil {
					return nil
				}
				e.w.ensureBuilt(p)
				obj := p.Pkg.Scope().Lookup(tname)
				if obj == nil {
					return nil
				}
				var recv types.Type = obj.Type()
				if strings.HasPrefix(rest, "*") {
					recv = types.NewPointer(recv)
				}
				return e.w.prog.LookupMethod(recv, p.Pkg, mname)
			}
			k := strings.LastIndex(target, ".")
			if k < 0 {
				return nil
			}
			p := e.w.prog.ImportedPackage(target[:k])
			if p == nil {
				return nil
			}
			e.w.ensureBuilt(p)
			return p.Func(target[k+1:])
		}
	}
	return nil
}

func (e *Exec) callSSAFrame(caller *frame, fn *ssa.Function, args []Value, env []Value) Value {
	if fn.Blocks == nil && fn.Synthetic == "" {
		if t := e.resolveLinkname(fn); t != nil && t != fn {
			return e.callSSAFrame(caller, t, args, env)
		}
	}
	if fn.Blocks == nil {
		if fn.Pkg != nil {
			e.w.ensureBuilt(fn.Pkg)
		} else if o := fn.Origin(); o != nil && o.Pkg != nil {
			e.w.ensureBuilt(o.Pkg)
		}
		if fn.Blocks == nil {
			e.outside("no body for %s", fn)
		}
	}
	e.depth++
	if e.depthFault > 0 && e.depth > e.depthFault {
		// the harness declared that no terminating run on its inputs nests this deep: unbounded recursion
		df := e.depthFault
		e.depthFault = 0
		e.depth--
		e.fault("resource: stack overflow: call depth %d exceeded in %s (unbounded recursion)", df, fn)
	}
	if e.depth > e.maxDepth {
		e.abort("limit", "call depth bound %d exceeded in %s", e.maxDepth, fn)
	}
	e.callStk = append(e.callStk, fn)
	e.pathFuncs[fn.String()]++
	defer func() {
		e.depth--
		e.callStk = e.callStk[:len(e.callStk)-1]
	}()
	fr := &frame{e: e, fn: fn, env: make(map[ssa.Value]Value, 16), caller: caller}
	if len(args) != len(fn.Params) {
		panic(fmt.Sprintf("arity mismatch calling %s: %d args, %d params", fn, len(args), len(fn.Params)))
	}
	for i, p := range fn.Params {
		fr.env[p] = args[i]
	}
	for i, fv := range fn.FreeVars {
		fr.env[fv] = env[i]
	}
	for _, l := range fn.Locals {
		fr.env[l] = new(Value)
	}
	fr.block = fn.Blocks[0]
	for fr.block != nil {
		fr.runBlocks()
	}
	return fr.result
}

func (e *Exec) scalarRecv(fn *ssa.Function, args []Value) (reflect.Value, bool) {
	rt, ok := e.reflectTypeOf(fn.Signature.Recv().Type())
	if !ok {
		return reflect.Value{}, false
	}
	switch args[0].(type) {
	case *Term, string, *SymStr, FloatV:
		return e.toNative(args[0], rt), true
	}
	return reflect.Value{}, false
}

func (e *Exec) callBuiltin(caller *frame, b *ssa.Builtin, args []Value) Value {
	tb := e.tb
	switch b.Name() {
	case "len":
		switch x := args[0].(type) {
		case string, *SymStr:
			return e.strLen(x)
		case SliceV:
			return tb.BV(64, uint64(len(x.Data)))
		case Array:
			return tb.BV(64, uint64(len(x)))
		case *Value:
			if x == nil {
				// len of nil *array is the array length; type needed; rare
				return tb.BV(64, 0)
			}
			return tb.BV(64, uint64(len((*x).(Array))))
		case *MapV:
			if x == nil {
				return tb.BV(64, 0)
			}
			return tb.BV(64, uint64(x.Len()))
		case *ChanV:
			return tb.BV(64, 0)
		case Native:
			return tb.BV(64, uint64(x.V.Len()))
		}
	case "cap":
		switch x := args[0].(type) {
		case SliceV:
			return tb.BV(64, uint64(cap(x.Data)))
		case Array:
			return tb.BV(64, uint64(len(x)))
		case *Value:
			return tb.BV(64, uint64(len((*x).(Array))))
		}
	case "append":
		s := args[0].(SliceV)
		switch t := args[1].(type) {
		case SliceV:
			if len(t.Data) == 0 {
				return s
			}
			n := make([]Value, 0, len(s.Data)+len(t.Data))
			// Go reuses capacity when possible; emulate to keep aliasing behaviour
			if len(s.Data)+len(t.Data) <= cap(s.Data) {
				n = s.Data
			} else {
				n = append(n, s.Data...)
				extra := len(n) + len(t.Data)
				if extra < 2*len(s.Data) {
					extra = 2 * len(s.Data)
				}
				grown := make([]Value, len(n), extra)
				copy(grown, n)
				n = grown
			}
			for _, v := range t.Data {
				n = append(n, copyVal(v))
			}
			return SliceV{Data: n}
		case string, *SymStr:
			str := e.concString(t)
			n := append([]Value(nil), s.Data...)
			for i := 0; i < len(str); i++ {
				n = append(n, tb.BV(8, uint64(str[i])))
			}
			return SliceV{Data: n}
		}
	case "copy":
		dst := args[0].(SliceV)
		switch src := args[1].(type) {
		case SliceV:
			n := len(dst.Data)
			if len(src.Data) < n {
				n = len(src.Data)
			}
			tmp := make([]Value, n)
			for i := 0; i < n; i++ {
				tmp[i] = copyVal(src.Data[i])
			}
			copy(dst.Data, tmp)
			return tb.BV(64, uint64(n))
		case string, *SymStr:
			str := e.concString(src)
			n := len(dst.Data)
			if len(str) < n {
				n = len(str)
			}
			for i := 0; i < n; i++ {
				dst.Data[i] = tb.BV(8, uint64(str[i]))
			}
			return tb.BV(64, uint64(n))
		}
	case "delete":
		e.mapDelete(args[0], args[1])
		return nil
	case "panic":
		e.userPanic(args[0], e.panicString(args[0]))
	case "recover":
		// caller is the frame of the function calling recover(); its caller must be panicking
		if caller != nil && caller.caller != nil && caller.caller.panicking {
			p := caller.caller
			p.panicking = false
			gp := p.panicVal
			p.panicVal = nil
			return gp.val
		}
		return Iface{}
	case "print", "println":
		return nil
	case "min", "max":
		r := args[0]
		for _, a := range args[1:] {
			switch x := r.(type) {
			case *Term:
				y := a.(*Term)
				// signedness unknown here; assume signed (ints dominate)
				lt := tb.bvCmp("bvslt", y, x)
				if b.Name() == "max" {
					lt = tb.bvCmp("bvslt", x, y)
				}
				r = tb.Ite(lt, y, x)
			case FloatV:
				y := a.(FloatV)
				if (b.Name() == "min" && y < x) || (b.Name() == "max" && y > x) {
					r = y
				}
			default:
				e.outside("min/max on %T", r)
			}
		}
		return r
	case "clear":
		switch x := args[0].(type) {
		case *MapV:
			if x != nil {
				x.conc = map[string]*mapEntry{}
				x.order = nil
				x.nsym = 0
			}
		}
		return nil
	case "real":
		return FloatV(real(complex128(args[0].(ComplexV))))
	case "imag":
		return FloatV(imag(complex128(args[0].(ComplexV))))
	case "complex":
		return ComplexV(complex(float64(args[0].(FloatV)), float64(args[1].(FloatV))))
	case "ssa:wrapnilchk":
		if p, ok := args[0].(*Value); ok && p == nil {
			e.fault("value method called using nil pointer")
		}
		return args[0]
	}
	panic(fmt.Sprintf("builtin %s on %T", b.Name(), args[0]))
}

// callMethodRef dispatches interface method calls whose receiver is not an SSA-typed object.
func (e *Exec) callMethodRef(m *methodRef, args []Value) Value {
	switch r := args[0].(type) {
	case *CV:
		return e.cvMethod(r, m.name, args[1:])
	case Native:
		mv := r.V.MethodByName(m.name)
		if !mv.IsValid() {
			e.outside("native method %s not reachable on %v", m.name, r.V.Type())
		}
		e.res.noteNative(fmt.Sprintf("(%v).%s", r.V.Type(), m.name))
		return e.callReflect(mv, args[1:], m.sig, m.name)
	case string:
		if strings.HasPrefix(r, "RT:") {
			return r[3:]
		}
	}
	panic(fmt.Sprintf("callMethodRef %s on %T", m.name, args[0]))
}

func (e *Exec) callNativeMethod(fn *ssa.Function, args []Value) Value {
	r := args[0].(Native)
	name := fn.Name()
	if i := strings.IndexByte(name, '$'); i >= 0 {
		name = name[:i]
	}
	mv := r.V.MethodByName(name)
	if !mv.IsValid() && r.V.Kind() != reflect.Ptr && r.V.CanAddr() {
		mv = r.V.Addr().MethodByName(name)
	}
	if !mv.IsValid() {
		// promoted through unexported embedded struct etc.: interpret wrapper if synthetic
		if fn.Synthetic != "" && fn.Blocks != nil {
			return e.callSSAFrame(nil, fn, args, nil)
		}
		if ssaFuncOverride[fnKey(fn)] || fn.Blocks != nil && !token_IsExported(name) {
			return e.callSSAFrame(nil, fn, args, nil)
		}
		e.outside("native method %s.%s not reachable", r.V.Type(), name)
	}
	e.res.noteNative(fnKey(fn))
	return e.callReflect(mv, args[1:], fn.Signature, fnKey(fn))
}

func token_IsExported(name string) bool {
	return name != "" && name[0] >= 'A' && name[0] <= 'Z'
}

// callReflect invokes a native function with converted arguments.
func (e *Exec) callReflect(fv reflect.Value, args []Value, sig *types.Signature, what string) (result Value) {
	ft := fv.Type()
	nin := ft.NumIn()
	if len(args) != nin {
		panic(fmt.Sprintf("native call %s: %d args for %d params", what, len(args), nin))
	}
	in := make([]reflect.Value, nin)
	for i := 0; i < nin; i++ {
		in[i] = e.toNative(args[i], ft.In(i))
	}
	if sig != nil && what != "" {
		e.res.noteNative(what)
	}
	var out []reflect.Value
	func() {
		defer func() {
			if r := recover(); r != nil {
				switch x := r.(type) {
				case pathAbort, *goPanic:
					panic(r)
				case error:
					_, isRT := r.(interface{ RuntimeError() })
					if isRT {
						panic(&goPanic{val: Iface{T: e.w.errorT, V: "RT:" + x.Error()}, runtime: true, msg: "native: " + x.Error(), stack: what + " <- " + e.stackString()})
					}
					panic(&goPanic{val: Iface{T: e.w.errorT, V: Native{reflect.ValueOf(&r).Elem().Elem()}}, msg: "native panic: " + x.Error(), stack: what + " <- " + e.stackString()})
				default:
					s := fmt.Sprint(r)
					panic(&goPanic{val: Iface{T: types.Typ[types.String], V: s}, msg: "native panic: " + s, stack: what + " <- " + e.stackString()})
				}
			}
		}()
		if ft.IsVariadic() {
			out = fv.CallSlice(in)
		} else {
			out = fv.Call(in)
		}
	}()
	var rts *types.Tuple
	if sig != nil {
		rts = sig.Results()
	}
	rt := func(i int) types.Type {
		if rts != nil && i < rts.Len() {
			return rts.At(i).Type()
		}
		return nil
	}
	switch len(out) {
	case 0:
		return nil
	case 1:
		return e.fromNative(out[0], rt(0))
	}
	tp := make(Tuple, len(out))
	for i, o := range out {
		tp[i] = e.fromNative(o, rt(i))
	}
	return tp
}
