package main

// vp primitives and library intrinsics.

import (
	"regexp"
	"sync"
	"fmt"
	"go/constant"
	"go/types"
	"math/big"
	"reflect"
	"strings"

	"golang.org/x/tools/go/ssa"
)

const vpPath = "github.com/goplus/gogen/internal/vp"

type KnownFinding struct {
	Property string   `json:"property"`
	ID       string   `json:"id"`
	Status   string   `json:"status"` // "known" | "fixed"
	Harness  string   `json:"harness"`
	Assert   string   `json:"assert"`
	Vars     []string `json:"vars"`
	Region   string   `json:"region"`
	What     string   `json:"what"`
	Commit   string   `json:"commit,omitempty"`
	reH, reA *regexp.Regexp
}

func (e *Exec) argStr(v Value) string { return e.concString(v) }

func (e *Exec) varargs(v Value) []Value {
	if s, ok := v.(SliceV); ok {
		return s.Data
	}
	return nil
}

func (e *Exec) stat(id string) *AssertStat {
	s := e.res.Asserts[id]
	if s == nil {
		s = &AssertStat{}
		e.res.Asserts[id] = s
	}
	return s
}

func (e *Exec) rawCheck(base []*Term, raw []string) SatResult {
	e.solver.Push()
	defer e.solver.Pop()
	e.defineFacts()
	for _, t := range base {
		e.solver.Assert(t)
	}
	for _, r := range raw {
		e.solver.send("(assert " + r + ")")
	}
	r := e.solver.Check()
	if r == UnknownRes {
		e.inexact = true
	}
	return r
}

// defineFacts makes the harness's named facts and concrete inputs visible to region predicates.
func (e *Exec) defineFacts() {
	for _, name := range e.factOrder {
		t := e.facts[name]
		e.solver.send(fmt.Sprintf("(define-fun %s () %s %s)", smtName(name), t.sort, e.solver.ref(t)))
	}
}

func (e *Exec) setFact(name string, t *Term) {
	if _, ok := e.facts[name]; !ok {
		e.factOrder = append(e.factOrder, name)
	}
	e.facts[name] = t
}

func (e *Exec) applicableRegions(id string) []*KnownFinding {
	var out []*KnownFinding
	for _, k := range e.known {
		if k.Status != "known" || !k.matches(e.harness, id) {
			continue
		}
		ok := true
		for _, v := range k.Vars {
			if _, has := e.facts[v]; has {
				continue
			}
			if iv, has := e.inputIdx[v]; !has || iv.Term.IsConst() {
				ok = false
			}
		}
		if ok {
			// make sure the variables are declared in the solver
			for _, v := range k.Vars {
				if iv, has := e.inputIdx[v]; has {
					e.solver.ref(iv.Term)
				}
			}
			out = append(out, k)
		}
	}
	return out
}

// doAssert discharges an assertion on the current path.
func (e *Exec) doAssert(id string, cond *Term, fault bool, msg string) {
	e.res.mu.Lock()
	st := e.stat(id)
	e.res.mu.Unlock()
	bump := func(p *int) {
		e.res.mu.Lock()
		*p++
		e.res.mu.Unlock()
	}
	e.obs = append(e.obs, Observation{ID: id, Kind: "assert", Term: cond})
	if v, ok := cond.boolVal(); ok && v {
		bump(&st.Proved)
		if *flagLearn != "" {
			e.learnCell(id, "proved")
		}
		return
	}
	nc := e.tb.Not(cond)
	r := e.feasible(nc)
	if r == Unsat {
		bump(&st.Proved)
		if *flagLearn != "" {
			e.learnCell(id, "proved")
		}
		return
	}
	if r == UnknownRes {
		bump(&st.Inconclusive)
		e.assume(cond)
		return
	}
	if *flagLearn != "" {
		e.learnCell(id, "violated")
	}
	regions := e.applicableRegions(id)
	var negs []string
	for _, k := range regions {
		negs = append(negs, "(not "+k.Region+")")
	}
	isNew := true
	if len(regions) > 0 {
		switch e.rawCheck([]*Term{nc}, negs) {
		case Unsat:
			isNew = false
		case UnknownRes:
			isNew = false
			bump(&st.Inconclusive)
		}
	}
	for _, k := range regions {
		if e.rawCheck([]*Term{nc}, []string{k.Region}) == Sat {
			bump(&st.Known)
			e.res.mu.Lock()
			e.res.KnownHit[k.ID]++
			e.res.mu.Unlock()
		}
	}
	if isNew {
		if msg == "" && e.lastPanic != nil {
			msg = "last panic: " + e.lastPanic.msg + " @ " + e.lastPanic.stack
		}
		bump(&st.Violated)
		e.recordViolation(id, nc, negs, fault, msg)
	}
	e.assume(cond)
}

func (e *Exec) recordViolation(id string, nc *Term, negs []string, fault bool, msg string) {
	e.res.mu.Lock()
	n := 0
	for _, v := range e.res.Violations {
		if v.Assert == id {
			n++
		}
	}
	e.res.mu.Unlock()
	if n >= 4 {
		return
	}
	e.solver.Push()
	e.defineFacts()
	e.solver.Assert(nc)
	for _, r := range negs {
		e.solver.send("(assert " + r + ")")
	}
	var inputs map[string]string
	if e.solver.Check() == Sat {
		ts := make([]*Term, len(e.inputs))
		for i, iv := range e.inputs {
			ts[i] = iv.Term
		}
		if mv, err := e.solver.GetValues(ts); err == nil {
			inputs = map[string]string{}
			for i, iv := range e.inputs {
				inputs[iv.Name] = modelString(iv, mv[i])
			}
		}
	}
	e.solver.Pop()
	v := &Violation{Harness: e.harness, Assert: id, Inputs: inputs, Trace: append([]Decision(nil), e.trace...), Msg: msg, Fault: fault}
	e.res.mu.Lock()
	e.res.Violations = append(e.res.Violations, v)
	e.res.mu.Unlock()
}

func (e *Exec) panicClass(gp *goPanic) int {
	if gp.runtime {
		return 2
	}
	if ifc, ok := gp.val.(Iface); ok && ifc.T != nil {
		switch x := ifc.V.(type) {
		case Native:
			if x.V.IsValid() && x.V.Type().Implements(rtError) {
				return 1
			}
		default:
			if ifc.T != cvFakeType && e.hasMethod(ifc.T, "Error") {
				return 1
			}
		}
	}
	return 3
}

// renderValue renders a value canonically (same format as vp.Render); symbolic parts
// are returned as terms to be evaluated under a model.
type rendered struct {
	prefix string
	terms  []*Term // evaluated and joined by ","
	isInt  bool
	signed bool
	str    Value
}

func (e *Exec) renderObserve(v Value) (string, []*Term) {
	ifc, ok := v.(Iface)
	if !ok {
		return "?", nil
	}
	if ifc.T == nil {
		return "nil", nil
	}
	switch x := ifc.V.(type) {
	case *Term:
		if x.sort.K == SBool {
			return "%b", []*Term{x}
		}
		if _, signed, ok := isIntType(ifc.T); ok && signed {
			return "%d", []*Term{x}
		}
		return "%u", []*Term{x}
	case string:
		return fmt.Sprintf("%q", x), nil
	case *SymStr:
		return fmt.Sprintf("%q", e.concString(x)), nil
	case *CV:
		switch x.K {
		case constant.Unknown:
			return "unknown", nil
		case constant.Bool:
			return "bool:%b", []*Term{x.B}
		case constant.String:
			return "string:" + fmt.Sprintf("%q", e.concString(x.S)), nil
		case constant.Int:
			return "int:%r", []*Term{x.I}
		case constant.Float:
			return "float:%r", []*Term{x.Re}
		case constant.Complex:
			return "complex:%r,%r", []*Term{x.Re, x.Im}
		}
	case Native:
		if x.V.IsValid() && x.V.CanInterface() {
			if t, ok := x.V.Interface().(types.Type); ok {
				return "type:" + types.TypeString(t, nil), nil
			}
			if _, ok := x.V.Interface().(error); ok {
				return "error", nil
			}
		}
	}
	if e.hasMethod(ifc.T, "Underlying") && e.hasMethod(ifc.T, "String") {
		return "type:" + e.concString(e.callMethodByName(ifc, "String")), nil
	}
	if e.hasMethod(ifc.T, "Error") {
		return "error", nil
	}
	return "<" + ifc.T.String() + ">", nil
}

func fillRender(pat string, ts []*Term, mv []ModelVal) string {
	var sb strings.Builder
	k := 0
	for i := 0; i < len(pat); i++ {
		if pat[i] == '%' && i+1 < len(pat) && k < len(mv) {
			switch pat[i+1] {
			case 'b':
				sb.WriteString(fmt.Sprint(mv[k].B))
			case 'd':
				sb.WriteString(fmt.Sprint(ts[k].sortSigned(mv[k].U)))
			case 'u':
				sb.WriteString(fmt.Sprint(mv[k].U))
			case 'r':
				if mv[k].Sort.K == SInt {
					sb.WriteString(mv[k].I.String())
				} else {
					sb.WriteString(mv[k].R.RatString())
				}
			default:
				sb.WriteByte(pat[i])
				continue
			}
			k++
			i++
			continue
		}
		sb.WriteByte(pat[i])
	}
	return sb.String()
}

func init() {
	reg := func(name string, f func(e *Exec, caller *frame, a []Value) Value) {
		intrinsics[name] = func(e *Exec, c *frame, _ *ssa.Function, args []Value) Value { return f(e, c, args) }
	}
	vp := func(name string, f func(e *Exec, caller *frame, a []Value) Value) { reg(vpPath+"."+name, f) }

	rangeVar := func(e *Exec, name, kind string, lo, hi *Term) *Term {
		x := e.tb.Var(name, sortBV(64))
		e.addInput(name, kind, x)
		e.assume(e.tb.And(e.tb.bvCmp("bvsle", lo, x), e.tb.bvCmp("bvsle", x, hi)))
		return x
	}
	vp("Int", func(e *Exec, _ *frame, a []Value) Value {
		return rangeVar(e, e.argStr(a[0]), "int", a[1].(*Term), a[2].(*Term))
	})
	vp("Int64", func(e *Exec, _ *frame, a []Value) Value {
		return rangeVar(e, e.argStr(a[0]), "int", a[1].(*Term), a[2].(*Term))
	})
	vp("Uint64", func(e *Exec, _ *frame, a []Value) Value {
		n := e.argStr(a[0])
		x := e.tb.Var(n, sortBV(64))
		e.addInput(n, "uint", x)
		return x
	})
	vp("Uint32", func(e *Exec, _ *frame, a []Value) Value {
		n := e.argStr(a[0])
		x := e.tb.Var(n, sortBV(32))
		e.addInput(n, "uint", x)
		return x
	})
	vp("Fresh", func(e *Exec, _ *frame, a []Value) Value {
		n := e.argStr(a[0])
		x := e.tb.Var(n, sortBV(32))
		e.addInput(n, "uint", x)
		return x
	})
	vp("Byte", func(e *Exec, _ *frame, a []Value) Value {
		n := e.argStr(a[0])
		x := e.tb.Var(n, sortBV(8))
		e.addInput(n, "uint", x)
		return x
	})
	vp("Bool", func(e *Exec, _ *frame, a []Value) Value {
		n := e.argStr(a[0])
		x := e.tb.Var(n, sortBool)
		e.addInput(n, "bool", x)
		return x
	})
	oneOf := func(e *Exec, name string, vals []Value) *Term {
		x := e.tb.Var(name, sortBV(64))
		e.addInput(name, "tok", x)
		c := e.tb.Bool(false)
		for _, v := range vals {
			c = e.tb.Or(c, e.tb.Eq(x, v.(*Term)))
		}
		e.assume(c)
		return x
	}
	vp("Tok", func(e *Exec, _ *frame, a []Value) Value { return oneOf(e, e.argStr(a[0]), e.varargs(a[1])) })
	vp("Kind", func(e *Exec, _ *frame, a []Value) Value { return oneOf(e, e.argStr(a[0]), e.varargs(a[1])) })
	chooseIn := func(e *Exec, name string, n int) int {
		if iv, ok := e.inputIdx[name]; ok && iv.Kind == "choose" {
			return int(iv.Term.u) // the same named choice again: same value (as natively)
		}
		i := e.choose(n)
		e.addInput(name, "choose", e.tb.BV(64, uint64(i)))
		return i
	}
	vp("Choose", func(e *Exec, _ *frame, a []Value) Value {
		n := int(e.concInt(a[1]))
		return e.tb.BV(64, uint64(chooseIn(e, e.argStr(a[0]), n)))
	})
	vp("Pick", func(e *Exec, _ *frame, a []Value) Value {
		n := e.argStr(a[0])
		var opts []string
		for _, o := range e.varargs(a[1]) {
			opts = append(opts, e.concString(o))
		}
		if len(opts) == 1 {
			return opts[0]
		}
		sel := e.tb.Var(n, sortBV(8))
		e.addInput(n, "uint", sel)
		e.assume(e.tb.bvCmp("bvult", sel, e.tb.BV(8, uint64(len(opts)))))
		return &SymStr{Opts: opts, Sel: sel}
	})
	cInt := func(e *Exec, n string) *CV {
		x := e.tb.Var(n, sortInt)
		e.addInput(n, "cint", x)
		return e.cvInt(x)
	}
	cFloat := func(e *Exec, n string) *CV {
		x := e.tb.Var(n, sortReal)
		e.addInput(n, "creal", x)
		return e.cvFloat(x)
	}
	cComplex := func(e *Exec, n string) *CV {
		re := e.tb.Var(n+".re", sortReal)
		im := e.tb.Var(n+".im", sortReal)
		e.addInput(n+".re", "creal", re)
		e.addInput(n+".im", "creal", im)
		return e.cvComplex(re, im)
	}
	vp("ConstInt", func(e *Exec, _ *frame, a []Value) Value { return e.cvIface(cInt(e, e.argStr(a[0]))) })
	vp("ConstFloat", func(e *Exec, _ *frame, a []Value) Value { return e.cvIface(cFloat(e, e.argStr(a[0]))) })
	vp("ConstComplex", func(e *Exec, _ *frame, a []Value) Value { return e.cvIface(cComplex(e, e.argStr(a[0]))) })
	vp("ConstNum", func(e *Exec, _ *frame, a []Value) Value {
		n := e.argStr(a[0])
		if chooseIn(e, n+".kind", 2) == 0 {
			return e.cvIface(cInt(e, n+".i"))
		}
		return e.cvIface(cFloat(e, n+".r"))
	})
	vp("ConstAny", func(e *Exec, _ *frame, a []Value) Value {
		n := e.argStr(a[0])
		switch chooseIn(e, n+".kind", 5) {
		case 0:
			return e.cvIface(cInt(e, n+".i"))
		case 1:
			return e.cvIface(cFloat(e, n+".r"))
		case 2:
			return e.cvIface(cComplex(e, n))
		case 3:
			b := e.tb.Var(n+".b", sortBool)
			e.addInput(n+".b", "bool", b)
			return e.cvIface(e.cvBool(b))
		}
		sel := e.tb.Var(n+".s", sortBV(8))
		e.addInput(n+".s", "uint", sel)
		e.assume(e.tb.bvCmp("bvult", sel, e.tb.BV(8, 3)))
		return e.cvIface(e.cvStr(&SymStr{Opts: []string{"", "a", "ab"}, Sel: sel}))
	})
	vp("Assume", func(e *Exec, _ *frame, a []Value) Value {
		c := a[0].(*Term)
		if v, ok := c.boolVal(); ok {
			if !v {
				e.abort("infeasible", "assume(false)")
			}
			return nil
		}
		if e.feasible(c) == Unsat {
			e.abort("infeasible", "assumption unsatisfiable")
		}
		e.assume(c)
		return nil
	})
	vp("Assert", func(e *Exec, _ *frame, a []Value) Value {
		id := e.argStr(a[0])
		if e.prop != "" && !assertBelongs(id, e.prop) {
			// assertion of another property sharing this harness: logged for replay comparison, not checked
			e.obs = append(e.obs, Observation{ID: id, Kind: "assert", Term: a[1].(*Term)})
			return nil
		}
		e.doAssert(id, a[1].(*Term), false, "")
		return nil
	})
	vp("Oracle", func(e *Exec, _ *frame, a []Value) Value { return nil })
	vp("Cover", func(e *Exec, _ *frame, a []Value) Value {
		id := e.argStr(a[0])
		e.res.mu.Lock()
		e.res.CoverSeen[id] = true
		done := e.res.Covers[id]
		e.res.mu.Unlock()
		if done {
			return nil
		}
		c := a[1].(*Term)
		hit := false
		if v, ok := c.boolVal(); ok {
			hit = v && e.feasible() == Sat
		} else {
			hit = e.feasible(c) == Sat
		}
		if hit {
			e.res.mu.Lock()
			e.res.Covers[id] = true
			e.res.mu.Unlock()
		}
		return nil
	})
	vp("Observe", func(e *Exec, _ *frame, a []Value) Value {
		id := e.argStr(a[0])
		pat, ts := e.renderObserve(a[1])
		e.obs = append(e.obs, Observation{ID: id, Kind: "observe", Str: pat, Terms: ts})
		return nil
	})
	try := func(e *Exec, caller *frame, f Value) (class int, val Value) {
		defer func() {
			if r := recover(); r != nil {
				gp, ok := r.(*goPanic)
				if !ok {
					panic(r)
				}
				class = e.panicClass(gp)
				val = gp.val
				if gp.runtime && strings.HasPrefix(gp.msg, "resource:") {
					e.noteResource(gp)
				}
				e.lastPanic = gp
			}
		}()
		e.callFrom(caller, f, nil)
		return 0, Iface{}
	}
	vp("Try", func(e *Exec, c *frame, a []Value) Value {
		cl, _ := try(e, c, a[0])
		return e.tb.BV(64, uint64(cl))
	})
	vp("TryVal", func(e *Exec, c *frame, a []Value) Value {
		cl, v := try(e, c, a[0])
		return Tuple{e.tb.BV(64, uint64(cl)), v}
	})
	vp("MapOrder", func(e *Exec, _ *frame, a []Value) Value { e.mapArb = e.concBool(a[0]); return nil })
	vp("TrackGlobals", func(e *Exec, _ *frame, a []Value) Value {
		if e.concBool(a[0]) {
			e.snapshotGlobals()
		} else {
			e.globalCells = nil
			e.globalMaps = nil
		}
		return nil
	})
	vp("Thorough", func(e *Exec, _ *frame, a []Value) Value {
		v := uint64(0)
		if e.tier == "thorough" {
			v = 1
		}
		e.addInput("__thorough", "choose", e.tb.BV(64, v))
		return e.tb.Bool(v == 1)
	})
	vp("Fact", func(e *Exec, _ *frame, a []Value) Value {
		t := a[1].(*Term)
		if t.sort.K == SBV {
			t = e.tb.Bv2Int(t, true)
		}
		e.setFact(e.argStr(a[0]), t)
		return nil
	})
	vp("FactBool", func(e *Exec, _ *frame, a []Value) Value {
		e.setFact(e.argStr(a[0]), a[1].(*Term))
		return nil
	})
	vp("And", func(e *Exec, _ *frame, a []Value) Value { return e.tb.And(a[0].(*Term), a[1].(*Term)) })
	vp("Or", func(e *Exec, _ *frame, a []Value) Value { return e.tb.Or(a[0].(*Term), a[1].(*Term)) })
	vp("Stub", func(e *Exec, _ *frame, a []Value) Value {
		// replaces a function of the code under test by a harness closure (engine only; listed in evidence)
		e.stubs[e.argStr(a[0])] = a[1].(Iface).V
		return nil
	})
	vp("StubPre", func(e *Exec, _ *frame, a []Value) Value {
		e.stubsPre[e.argStr(a[0])] = a[1].(Iface).V
		return nil
	})
	vp("Ite", func(e *Exec, _ *frame, a []Value) Value {
		return e.tb.Ite(a[0].(*Term), a[1].(*Term), a[2].(*Term))
	})
	vp("DepthIsFault", func(e *Exec, _ *frame, a []Value) Value { e.depthFault = int(e.concretize(a[0].(*Term))); return nil })
	vp("SymbolicAddrs", func(e *Exec, _ *frame, a []Value) Value { e.symAddrs = e.concBool(a[0]); return nil })
	vp("AssertNoGlobalWrites", func(e *Exec, _ *frame, a []Value) Value {
		id := e.argStr(a[0])
		msg := ""
		if len(e.globalWriteSeen) > 0 {
			msg = "race: package-level state written: " + strings.Join(e.globalWriteSeen, "; ")
		}
		e.doAssert(id, e.tb.Bool(len(e.globalWriteSeen) == 0), false, msg)
		e.globalWriteSeen = nil
		return nil
	})
	vp("Symbolic", func(e *Exec, _ *frame, a []Value) Value { return e.tb.Bool(true) })
	vp("Note", func(e *Exec, _ *frame, a []Value) Value { e.notes = append(e.notes, e.argStr(a[0])); return nil })

	// ---- fmt / log / errors ----
	format := func(e *Exec, f string, args []Value) string {
		vs := make([]interface{}, len(args))
		for i, a := range args {
			ifc, _ := a.(Iface)
			vs[i] = e.printable(ifc)
		}
		defer func() { recover() }()
		if f == "\x00print" {
			return fmt.Sprint(vs...)
		}
		if f == "\x00println" {
			return fmt.Sprintln(vs...)
		}
		return fmt.Sprintf(f, vs...)
	}
	reg("fmt.Sprintf", func(e *Exec, _ *frame, a []Value) Value { return format(e, e.argStr(a[0]), e.varargs(a[1])) })
	reg("fmt.Sprint", func(e *Exec, _ *frame, a []Value) Value { return format(e, "\x00print", e.varargs(a[0])) })
	reg("fmt.Sprintln", func(e *Exec, _ *frame, a []Value) Value { return format(e, "\x00println", e.varargs(a[0])) })
	reg("fmt.Errorf", func(e *Exec, _ *frame, a []Value) Value {
		s := format(e, strings.ReplaceAll(e.argStr(a[0]), "%w", "%v"), e.varargs(a[1]))
		var err error = fmt.Errorf("%s", s)
		return e.fromNative(reflect.ValueOf(&err).Elem(), nil)
	})
	for _, n := range []string{"fmt.Println", "fmt.Printf", "fmt.Print"} {
		reg(n, func(e *Exec, _ *frame, a []Value) Value {
			return Tuple{e.tb.BV(64, 0), Iface{}}
		})
	}
	for _, n := range []string{"fmt.Fprintf", "fmt.Fprint", "fmt.Fprintln"} {
		n := n
		reg(n, func(e *Exec, c *frame, a []Value) Value {
			var s string
			switch n {
			case "fmt.Fprintf":
				s = format(e, e.argStr(a[1]), e.varargs(a[2]))
			case "fmt.Fprint":
				s = format(e, "\x00print", e.varargs(a[1]))
			default:
				s = format(e, "\x00println", e.varargs(a[1]))
			}
			e.writeTo(c, a[0], s)
			return Tuple{e.tb.BV(64, uint64(len(s))), Iface{}}
		})
	}
	for _, n := range []string{"log.Println", "log.Printf", "log.Print"} {
		reg(n, func(e *Exec, _ *frame, a []Value) Value { return nil })
	}
	reg("log.Panicln", func(e *Exec, _ *frame, a []Value) Value {
		s := format(e, "\x00println", e.varargs(a[0]))
		e.userPanic(Iface{T: types.Typ[types.String], V: s}, s)
		return nil
	})
	reg("log.Panicf", func(e *Exec, _ *frame, a []Value) Value {
		s := format(e, e.argStr(a[0]), e.varargs(a[1]))
		e.userPanic(Iface{T: types.Typ[types.String], V: s}, s)
		return nil
	})
	reg("log.Panic", func(e *Exec, _ *frame, a []Value) Value {
		s := format(e, "\x00print", e.varargs(a[0]))
		e.userPanic(Iface{T: types.Typ[types.String], V: s}, s)
		return nil
	})
	for _, n := range []string{"log.Fatalln", "log.Fatalf", "log.Fatal", "os.Exit"} {
		n := n
		reg(n, func(e *Exec, _ *frame, a []Value) Value { e.outside("%s reached", n); return nil })
	}
	// sort.Slice: insertion sort with the real less closure
	reg("sort.Slice", func(e *Exec, c *frame, a []Value) Value {
		s := a[0].(Iface).V.(SliceV)
		less := a[1]
		d := s.Data
		for i := 1; i < len(d); i++ {
			for j := i; j > 0; j-- {
				r := e.callFrom(c, less, []Value{e.tb.BV(64, uint64(j)), e.tb.BV(64, uint64(j-1))})
				if !e.decide(r.(*Term)) {
					break
				}
				d[j], d[j-1] = d[j-1], d[j]
			}
		}
		return nil
	})
	reg("sort.SliceStable", intrinsicsAlias("sort.Slice"))
	// sync.Map as a deterministic association map (sequential semantics)
	smap := func(e *Exec, recv Value) *MapV {
		k, _ := concKey(recv)
		m := e.syncMaps[k]
		if m == nil {
			m = newMap(nil)
			e.syncMaps[k] = m
		}
		return m
	}
	reg("(*sync.Map).Load", func(e *Exec, _ *frame, a []Value) Value {
		en := e.mapFind(smap(e, a[0]), a[1])
		if en == nil {
			return Tuple{Iface{}, e.tb.Bool(false)}
		}
		return Tuple{en.v, e.tb.Bool(true)}
	})
	reg("(*sync.Map).Store", func(e *Exec, _ *frame, a []Value) Value {
		e.mapUpdate(smap(e, a[0]), a[1], a[2])
		return nil
	})
	reg("(*sync.Map).LoadOrStore", func(e *Exec, _ *frame, a []Value) Value {
		m := smap(e, a[0])
		if en := e.mapFind(m, a[1]); en != nil {
			return Tuple{en.v, e.tb.Bool(true)}
		}
		e.mapUpdate(m, a[1], a[2])
		return Tuple{a[2], e.tb.Bool(false)}
	})
	reg("(*sync.Map).Delete", func(e *Exec, _ *frame, a []Value) Value {
		e.mapDelete(smap(e, a[0]), a[1])
		return nil
	})
	reg("(*sync.Map).Range", func(e *Exec, c *frame, a []Value) Value {
		it := e.rangeIter(smap(e, a[0]), nil)
		for {
			t := it.next(e).(Tuple)
			if !e.concBool(t[0]) {
				return nil
			}
			r := e.callFrom(c, a[1], []Value{t[1], t[2]})
			if !e.decide(r.(*Term)) {
				return nil
			}
		}
	})
	for _, n := range []string{"(*sync.Mutex).Lock", "(*sync.Mutex).Unlock", "(*sync.RWMutex).Lock", "(*sync.RWMutex).Unlock", "(*sync.RWMutex).RLock", "(*sync.RWMutex).RUnlock"} {
		reg(n, func(e *Exec, _ *frame, a []Value) Value { return nil })
	}
	for _, ty := range []string{"Int32", "Int64", "Uint32", "Uint64", "Uintptr"} {
		reg("sync/atomic.Add"+ty, func(e *Exec, _ *frame, a []Value) Value {
			p := a[0].(*Value)
			if p == nil {
				e.fault("nil pointer dereference (atomic)")
			}
			v := e.tb.bvBin("bvadd", (*p).(*Term), a[1].(*Term))
			*p = v
			return v
		})
		reg("sync/atomic.Load"+ty, func(e *Exec, _ *frame, a []Value) Value {
			p := a[0].(*Value)
			if p == nil {
				e.fault("nil pointer dereference (atomic)")
			}
			return *p
		})
		reg("sync/atomic.Store"+ty, func(e *Exec, _ *frame, a []Value) Value {
			p := a[0].(*Value)
			if p == nil {
				e.fault("nil pointer dereference (atomic)")
			}
			*p = a[1]
			return nil
		})
		reg("sync/atomic.CompareAndSwap"+ty, func(e *Exec, _ *frame, a []Value) Value {
			p := a[0].(*Value)
			if e.decide(e.tb.Eq((*p).(*Term), a[1].(*Term))) {
				*p = a[2]
				return e.tb.Bool(true)
			}
			return e.tb.Bool(false)
		})
	}
	// harness helper: check.isPanic = set of calls (natively done with reflect+unsafe)
	reg("github.com/goplus/gogen.verifSetIsPanic", func(e *Exec, _ *frame, a []Value) Value {
		p := a[0].(*Value)
		st := (*p).(Struct)
		pk := e.w.prog.ImportedPackage("go/types")
		ct := pk.Pkg.Scope().Lookup("Checker").Type().Underlying().(*types.Struct)
		m := newMap(nil)
		for _, c := range a[1].(SliceV).Data {
			e.mapUpdate(m, c, e.tb.Bool(true))
		}
		var set func(st Struct, t *types.Struct) bool
		set = func(st Struct, t *types.Struct) bool {
			for i := 0; i < t.NumFields(); i++ {
				f := t.Field(i)
				if f.Name() == "isPanic" {
					st[i] = m
					return true
				}
				if f.Embedded() {
					if sub, ok := st[i].(Struct); ok {
						if ts, ok := f.Type().Underlying().(*types.Struct); ok && set(sub, ts) {
							return true
						}
					}
				}
			}
			return false
		}
		if set(st, ct) {
			return nil
		}
		panic("go/types.Checker has no field isPanic")
	})
	// expression rendering for diagnostics only: the text is never the subject of a check
	reg("go/types.ExprString", func(e *Exec, _ *frame, a []Value) Value { return "<expr>" })
	reg("runtime.Caller", func(e *Exec, _ *frame, a []Value) Value {
		return Tuple{e.tb.BV(64, 0), "?", e.tb.BV(64, 0), e.tb.Bool(false)}
	})
	reg("math/big.NewInt", func(e *Exec, _ *frame, a []Value) Value {
		t := a[0].(*Term)
		if t.IsConst() {
			return Native{reflect.ValueOf(big.NewInt(t.sval()))}
		}
		return e.symBigPtr(&symBig{I: e.tb.Bv2Int(t, true)})
	})
}

func intrinsicsAlias(name string) func(e *Exec, c *frame, a []Value) Value {
	return func(e *Exec, c *frame, a []Value) Value { return intrinsics[name](e, c, nil, a) }
}

func (e *Exec) symBigPtr(s *symBig) Value { return s }

func (e *Exec) noteResource(gp *goPanic) {
	e.resources = append(e.resources, gp.msg)
}

// writeTo sends s to an io.Writer value.
func (e *Exec) writeTo(c *frame, w Value, s string) {
	ifc, ok := w.(Iface)
	if !ok || ifc.T == nil {
		return
	}
	if n, isN := ifc.V.(Native); isN {
		if wr, ok := n.V.Interface().(interface{ Write([]byte) (int, error) }); ok {
			wr.Write([]byte(s))
		}
		return
	}
	data := make([]Value, len(s))
	for i := 0; i < len(s); i++ {
		data[i] = e.tb.BV(8, uint64(s[i]))
	}
	ms := e.w.prog.MethodSets.MethodSet(ifc.T)
	for i := 0; i < ms.Len(); i++ {
		if ms.At(i).Obj().Name() == "Write" {
			e.callFrom(c, e.w.prog.MethodValue(ms.At(i)), []Value{ifc.V, SliceV{Data: data}})
			return
		}
	}
}

// snapshotGlobals records every cell reachable from package-level variables (C18 monitor).
func (e *Exec) snapshotGlobals() {
	cells := map[*Value]string{}
	maps := map[*MapV]string{}
	var walk func(v Value, name string, depth int)
	var walkPtr func(p *Value, name string, depth int)
	walkPtr = func(p *Value, name string, depth int) {
		if p == nil || depth > 12 {
			return
		}
		if _, seen := cells[p]; seen {
			return
		}
		cells[p] = name
		walk(*p, name, depth+1)
	}
	walk = func(v Value, name string, depth int) {
		switch x := v.(type) {
		case *Value:
			walkPtr(x, name, depth)
		case Struct:
			for i := range x {
				walkPtr(&x[i], name, depth)
			}
		case Array:
			for i := range x {
				walkPtr(&x[i], name, depth)
			}
		case SliceV:
			for i := range x.Data {
				walkPtr(&x.Data[i], name, depth)
			}
		case Iface:
			walk(x.V, name, depth)
		case *MapV:
			if x != nil {
				if _, seen := maps[x]; seen {
					return
				}
				maps[x] = name
				for _, en := range x.order {
					walk(en.v, name, depth+1)
				}
			}
		}
	}
	for g, p := range e.globals {
		if g.Pkg == nil || !strings.HasPrefix(g.Pkg.Pkg.Path(), e.w.modPath) {
			continue
		}
		if strings.HasPrefix(g.Name(), "init$guard") {
			continue
		}
		walkPtr(p, g.Pkg.Pkg.Name()+"."+g.Name(), 0)
	}
	e.globalCells = cells
	e.globalMaps = maps
}

var learnMu sync.Mutex
var learned = map[string]map[string]*[2]int{} // harness|assert -> cell -> [violated, proved]

func (e *Exec) learnCell(id, what string) {
	var parts []string
	for _, name := range e.factOrder {
		t := e.facts[name]
		if t.IsConst() && t.sort.K == SInt && !strings.HasSuffix(name, ".typed") && !strings.HasSuffix(name, ".num") {
			parts = append(parts, fmt.Sprintf("(= %s %s)", smtName(name), smtInt(t.i)))
		}
	}
	cell := "true"
	if len(parts) == 1 {
		cell = parts[0]
	} else if len(parts) > 1 {
		cell = "(and " + strings.Join(parts, " ") + ")"
	}
	key := e.harness + "|" + id
	learnMu.Lock()
	m := learned[key]
	if m == nil {
		m = map[string]*[2]int{}
		learned[key] = m
	}
	c := m[cell]
	if c == nil {
		c = &[2]int{}
		m[cell] = c
	}
	if what == "violated" {
		c[0]++
	} else {
		c[1]++
	}
	learnMu.Unlock()
}

func (k *KnownFinding) matches(harness, assert string) bool {
	if k.reH == nil {
		k.reH = regexp.MustCompile("^(" + k.Harness + ")$")
		k.reA = regexp.MustCompile("^(" + k.Assert + ")$")
	}
	return k.reH.MatchString(harness) && k.reA.MatchString(assert)
}

// assertBelongs: an assertion id is "<P1>[,<P2>...].<name>"; it is checked when the property under
// check is one of the listed ones (or the list is ALL).
func assertBelongs(id, prop string) bool {
	i := strings.IndexByte(id, '.')
	if i < 0 {
		return true
	}
	for _, p := range strings.Split(id[:i], ",") {
		if p == prop || p == "ALL" {
			return true
		}
	}
	return false
}
