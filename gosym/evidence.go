package main

// Evidence file and verdict lines.

import (
	"regexp"
	"encoding/json"
	"fmt"
	"os"
	"path/filepath"
	"sort"
	"strings"
)

type propMeta struct {
	Level       string   `json:"level"`
	Assumptions []string `json:"assumptions"`
	Outside     []string `json:"outside_claim"`
	Explanation string   `json:"explanation"`
}

// writeEvidence writes /verif/evidence/<prop>.json and prints verdict lines. Returns exit code.
func writeEvidence(out *RunOutput, known []*KnownFinding, seed int) int {
	prop := out.Property
	meta := propMeta{Level: "model_checking"}
	if b, err := os.ReadFile(filepath.Join(*flagVerif, "harness", "meta.json")); err == nil {
		var all map[string]propMeta
		if json.Unmarshal(b, &all) == nil {
			if m, ok := all[prop]; ok {
				meta = m
				if meta.Level == "" {
					meta.Level = "model_checking"
				}
			}
		}
	}
	exit := 0
	states, replayOK, replayed := 0, 0, 0
	var samples []interface{}
	obl := map[string]int{"proved": 0, "violated_new": 0, "known": 0, "inconclusive": 0, "vacuous_covers": 0}
	funcs := map[string]int{}
	natives := map[string]int{}
	intr := map[string]int{}
	outside := map[string]int{}
	var harnessSumm []map[string]interface{}
	var notes []string
	nviol := 0
	os.MkdirAll(filepath.Join(outRoot(), "replay"), 0755)
	knownHit := map[string]int{}
	for _, h := range out.Harnesses {
		states += h.Paths
		replayOK += h.ReplayOK
		replayed += h.Replayed
		for _, s := range h.Samples {
			if len(samples) < 6 {
				s["harness"] = h.Name
				samples = append(samples, s)
			}
		}
		for _, a := range h.Asserts {
			obl["proved"] += a.Proved
			obl["violated_new"] += a.Violated
			obl["known"] += a.Known
			obl["inconclusive"] += a.Inconclusive
		}
		for id, c := range h.Covers {
			if !c {
				obl["vacuous_covers"]++
				notes = append(notes, fmt.Sprintf("cover point %s of %s not reached: obligations on that prefix are not counted as discharged", id, h.Name))
			}
		}
		for f, n := range h.Funcs {
			funcs[f] += n
		}
		for f, n := range h.Natives {
			natives[f] += n
		}
		for f, n := range h.Intrinsics {
			intr[f] += n
		}
		for f, n := range h.Outside {
			outside[h.Name+": "+f] += n
		}
		for k, n := range h.KnownHit {
			knownHit[k] += n
		}
		hs := map[string]interface{}{"name": h.Name, "paths": h.Paths, "infeasible_paths": h.Infeasible, "unwind_or_limit_failures": h.Limit,
			"incomplete": h.Incomplete, "unexplored_prefixes": h.Unexplored, "asserts": h.Asserts, "covers": h.Covers, "bounds": h.Bounds,
			"replayed": h.Replayed, "replay_ok": h.ReplayOK, "wall_s": h.WallS, "steps": h.Steps, "panic_paths": h.Panics}
		if len(h.GlobalWrites) > 0 {
			hs["global_writes"] = h.GlobalWrites
		}
		if len(h.Resources) > 0 {
			hs["resource_faults"] = h.Resources
		}
		if len(h.ReplayBad) > 0 {
			hs["replay_mismatch"] = h.ReplayBad
			fmt.Printf("INCONCLUSIVE property=%s harness=%s encoder-mismatch: %s\n", prop, h.Name, h.ReplayBad[0])
		}
		if len(h.Retried) > 0 {
			hs["retried_paths"] = h.Retried
		}
		if len(h.Errors) > 0 {
			hs["engine_errors"] = h.Errors
			fmt.Printf("INCONCLUSIVE property=%s harness=%s engine-error: %s\n", prop, h.Name, firstLine(h.Errors[0]))
		}
		if h.Incomplete || h.Limit > 0 {
			fmt.Printf("REDUCED-BOUND property=%s harness=%s unexplored=%d limit_paths=%d\n", prop, h.Name, h.Unexplored, h.Limit)
		}
		for _, v := range h.Violations {
			if !v.Replayed {
				notes = append(notes, fmt.Sprintf("violation of %s in %s has no model; inconclusive", v.Assert, h.Name))
				fmt.Printf("INCONCLUSIVE property=%s harness=%s assert=%s no-model\n", prop, h.Name, v.Assert)
				continue
			}
			if !v.Confirmed {
				notes = append(notes, fmt.Sprintf("spurious: model for %s in %s (%v) did not reproduce natively (%s)", v.Assert, h.Name, v.Inputs, v.NativeOutcome))
				fmt.Printf("INCONCLUSIVE property=%s harness=%s assert=%s spurious-model inputs=%v native=%q\n", prop, h.Name, v.Assert, v.Inputs, v.NativeOutcome)
				continue
			}
			nviol++
			rp := filepath.Join(outRoot(), "replay", fmt.Sprintf("%s-%d.json", prop, nviol))
			rb, _ := json.MarshalIndent(map[string]interface{}{"property": prop, "harness": h.Name, "assert": v.Assert, "inputs": v.Inputs, "message": v.Msg, "native": v.NativeOutcome}, "", " ")
			os.WriteFile(rp, rb, 0644)
			fmt.Printf("VIOLATION property=%s replay=%s\n", prop, rp)
			fmt.Printf("  harness=%s assert=%s inputs=%v %s\n", h.Name, v.Assert, v.Inputs, firstLine(v.Msg))
			exit = 1
		}
		harnessSumm = append(harnessSumm, hs)
	}
	var knownList []map[string]interface{}
	for _, k := range known {
		if k.Property != prop {
			continue
		}
		e := map[string]interface{}{"id": k.ID, "status": k.Status, "what": k.What, "paths_hit": knownHit[k.ID]}
		if k.Status == "known" {
			if knownHit[k.ID] > 0 {
				fmt.Printf("KNOWN-FINDING: property=%s %s: %s\n", prop, k.ID, k.What)
			} else {
				ran := false
				for _, h := range out.Harnesses {
					if k.matches(h.Name, k.Assert) || regexp.MustCompile("^(" + k.Harness + ")$").MatchString(h.Name) {
						ran = true
					}
				}
				if ran {
					notes = append(notes, "known finding "+k.ID+" did not reproduce on this run")
				}
			}
		}
		knownList = append(knownList, e)
	}
	cov := map[string]interface{}{
		"states":                        states,
		"transitions":                   out.Queries,
		"traces_validated_against_impl": replayOK,
		"samples":                       samples,
		"exhaustive":                    false,
		"explanation":                   meta.Explanation,
		"harnesses":                     harnessSumm,
		"obligations_detail":            obl,
		"functions_encoded":             topN(funcs, 400),
		"natives":                       topN(natives, 200),
		"intrinsics":                    topN(intr, 100),
		"outside_encoding_paths":        outside,
		"outside_claim":                 meta.Outside,
		"solver":                        map[string]interface{}{"name": *flagSolver, "solver_s": out.SolverS, "queries": out.Queries, "unknown": out.Unknown},
		"replayed_paths":                replayed,
		"known_findings":                knownList,
		"notes":                         notes,
		"load_s":                        out.LoadS,
	}
	if len(samples) == 0 {
		cov["samples"] = []interface{}{"no path completed"}
	}
	if states == 0 {
		cov["states"] = 0
	}
	ev := map[string]interface{}{
		"property_id": prop,
		"tier":        out.Tier,
		"seed":        seed,
		"level":       meta.Level,
		"coverage":    cov,
		"assumptions": append([]string{
			"go/types, go/token and the Go toolchain are the arbiter and run natively (not encoded)",
			"go/constant is modelled in SMT (Int = mathematical integers, Float = exact rationals); validated by native replay of solver models on every run",
			"bounds listed per harness; paths beyond a bound are reported as reduced bound, never as success",
		}, meta.Assumptions...),
		"wall_s":     out.WallS,
		"violations": nviol,
	}
	b, _ := json.MarshalIndent(ev, "", " ")
	os.MkdirAll(filepath.Join(outRoot(), "evidence"), 0755)
	os.WriteFile(filepath.Join(outRoot(), "evidence", prop+".json"), b, 0644)
	return exit
}

// outRoot is where evidence/ and replay/ are written: the verification directory, unless a seeded
// change is being evaluated against a scratch copy (VERIF_EVAL_DIR), which must not overwrite the
// evidence of the real tree.
func outRoot() string {
	if d := os.Getenv("VERIF_EVAL_DIR"); d != "" {
		return d
	}
	return *flagVerif
}

func firstLine(s string) string {
	if i := strings.IndexByte(s, '\n'); i >= 0 {
		s = s[:i]
	}
	if len(s) > 400 {
		s = s[:400]
	}
	return s
}

func topN(m map[string]int, n int) []map[string]interface{} {
	ks := make([]string, 0, len(m))
	for k := range m {
		ks = append(ks, k)
	}
	sort.Slice(ks, func(i, j int) bool {
		if m[ks[i]] != m[ks[j]] {
			return m[ks[i]] > m[ks[j]]
		}
		return ks[i] < ks[j]
	})
	if len(ks) > n {
		ks = ks[:n]
	}
	out := make([]map[string]interface{}, len(ks))
	for i, k := range ks {
		out[i] = map[string]interface{}{"name": k, "calls": m[k]}
	}
	return out
}
