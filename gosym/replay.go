package main

// Native replay: the same harnesses compiled with the real toolchain, run on solver models.

import (
	"bytes"
	"encoding/json"
	"fmt"
	"os"
	"os/exec"
	"path/filepath"
	"sort"
	"strings"
	"time"

	"golang.org/x/tools/go/ssa"
)

type nativeResult struct {
	Race    bool          `json:"-"`
	Events  []ReplayEvent `json:"events"`
	Outcome string        `json:"outcome"`
	Panic   string        `json:"panic"`
}

type replayJob struct {
	rep  *HarnessReport
	rc   *ReplayCase
	viol *Violation
}

func pkgDirOf(w *World, harness string) (string, *ssa.Package) {
	for _, p := range w.prog.AllPackages() {
		if !strings.HasPrefix(p.Pkg.Path(), w.modPath) {
			continue
		}
		if f := p.Func(harness); f != nil {
			dir := strings.TrimPrefix(strings.TrimPrefix(p.Pkg.Path(), w.modPath), "/")
			if dir == "" {
				dir = "."
			}
			return dir, p
		}
	}
	return "", nil
}

func replayAll(w *World, out *RunOutput, hfiles map[string][]string) {
	byDir := map[string][]*replayJob{}
	pkgs := map[string]*ssa.Package{}
	for _, rep := range out.Harnesses {
		dir, p := pkgDirOf(w, rep.Name)
		if p == nil {
			continue
		}
		pkgs[dir] = p
		for _, rc := range rep.replays {
			byDir[dir] = append(byDir[dir], &replayJob{rep: rep, rc: rc})
		}
		for _, v := range rep.Violations {
			if v.Inputs == nil {
				continue
			}
			byDir[dir] = append(byDir[dir], &replayJob{rep: rep, rc: &ReplayCase{Harness: rep.Name, Inputs: v.Inputs}, viol: v})
		}
	}
	for dir, jobs := range byDir {
		if len(jobs) == 0 {
			continue
		}
		results, err := runNative(w, dir, pkgs[dir], jobs, hfiles)
		if err != nil {
			for _, j := range jobs {
				j.rep.ReplayBad = append(j.rep.ReplayBad, "native replay failed: "+err.Error())
				break
			}
			continue
		}
		for i, j := range jobs {
			if i >= len(results) {
				break
			}
			nr := results[i]
			if j.viol != nil {
				j.viol.Replayed = true
				if strings.HasPrefix(j.viol.Msg, "race:") {
					j.viol.Confirmed = nr.Race
				} else if j.viol.Fault {
					j.viol.Confirmed = nr.Outcome == "fault" || nr.Outcome == "killed"
				} else if nr.Outcome == "killed" {
					// the process died (out of memory / timeout): confirms only a resource violation
					j.viol.Confirmed = strings.Contains(j.viol.Msg, "resource:")
				} else {
					for _, ev := range nr.Events {
						if ev.Kind == "assert" && ev.ID == j.viol.Assert && ev.Val == "false" {
							j.viol.Confirmed = true
						}
					}
					for _, ev := range nr.Events {
						if ev.Kind == "oracle" && ev.Val != "true" {
							j.viol.Confirmed = false
							j.viol.OracleMismatch = ev.ID + ": " + ev.Val
						}
					}
				}
				j.viol.NativeOutcome = nr.Outcome + " " + nr.Panic
				j.viol.NativeEvents = nr.Events
				continue
			}
			j.rep.Replayed++
			if msg := compareReplay(j.rc, nr); msg != "" {
				if len(j.rep.ReplayBad) < 5 {
					j.rep.ReplayBad = append(j.rep.ReplayBad, msg)
				}
			} else {
				j.rep.ReplayOK++
			}
		}
	}
}

func compareReplay(rc *ReplayCase, nr nativeResult) string {
	exp := rc.Expect
	var got []ReplayEvent
	for _, ev := range nr.Events {
		if ev.Kind == "oracle" {
			if ev.Val != "true" {
				return fmt.Sprintf("inputs=%v: reference oracle %s disagrees with go/types: %s", rc.Inputs, ev.ID, ev.Val)
			}
			continue
		}
		got = append(got, ev)
	}
	n := len(exp)
	if len(got) < n {
		n = len(got)
	}
	for i := 0; i < n; i++ {
		if exp[i] != got[i] {
			return fmt.Sprintf("inputs=%v event %d: engine %v native %v", rc.Inputs, i, exp[i], got[i])
		}
	}
	if len(exp) != len(got) {
		return fmt.Sprintf("inputs=%v: engine %d events, native %d events (native outcome %s %s)", rc.Inputs, len(exp), len(got), nr.Outcome, nr.Panic)
	}
	want := rc.Outcome
	have := nr.Outcome
	if have == "fault" {
		have = "panic"
	}
	if want != have {
		return fmt.Sprintf("inputs=%v: engine outcome %s native %s %s", rc.Inputs, want, nr.Outcome, nr.Panic)
	}
	return ""
}

func runNative(w *World, dir string, p *ssa.Package, jobs []*replayJob, hfiles map[string][]string) ([]nativeResult, error) {
	work := filepath.Join(*flagVerif, ".work", fmt.Sprintf("replay-%d-%d", os.Getpid(), time.Now().UnixNano()))
	if err := os.MkdirAll(work, 0755); err != nil {
		return nil, err
	}
	defer os.RemoveAll(work)
	// test driver
	var names []string
	for name, m := range p.Members {
		if _, ok := m.(*ssa.Function); ok && strings.HasPrefix(name, "VerifH_") {
			names = append(names, name)
		}
	}
	sort.Strings(names)
	var sb strings.Builder
	fmt.Fprintf(&sb, "//go:build verif\n\npackage %s\n\nimport (\n\t\"testing\"\n\t\"github.com/goplus/gogen/internal/vp\"\n)\n\nvar verifHarnesses = map[string]func(){\n", p.Pkg.Name())
	for _, n := range names {
		fmt.Fprintf(&sb, "\t%q: %s,\n", n, n)
	}
	initCall := ""
	if p.Func("VerifReplayInit") != nil {
		initCall = "\tVerifReplayInit()\n"
	}
	sb.WriteString("}\n\nfunc TestVerifReplay(t *testing.T) {\n" + initCall + "\tcases, err := vp.LoadCases()\n\tif err != nil {\n\t\tt.Fatal(err)\n\t}\n\tvar out []vp.Result\n\tfor _, c := range cases {\n\t\tout = append(out, vp.RunCase(c, verifHarnesses[c.Harness]))\n\t}\n\tif err := vp.SaveResults(out); err != nil {\n\t\tt.Fatal(err)\n\t}\n}\n")
	driver := filepath.Join(work, "zz_verif_replay_test.go")
	os.WriteFile(driver, []byte(sb.String()), 0644)
	repl := map[string]string{}
	repl[filepath.Join(*flagRepo, dir, "zz_verif_replay_test.go")] = driver
	for d, files := range hfiles {
		for _, f := range files {
			repl[filepath.Join(*flagRepo, d, filepath.Base(f))] = f
		}
	}
	repl[filepath.Join(*flagRepo, "internal", "vp", "vp.go")] = filepath.Join(*flagVerif, "vp", "vp.go")
	ob, _ := json.Marshal(map[string]interface{}{"Replace": repl})
	ovPath := filepath.Join(work, "overlay.json")
	os.WriteFile(ovPath, ob, 0644)
	bin := filepath.Join(work, "replay.test")
	env := append(os.Environ(), "GOFLAGS=-mod=mod", "GOPROXY=off", "GOSUMDB=off", "GOTOOLCHAIN=local")
	buildArgs := []string{"test", "-c", "-o", bin, "-tags", "verif", "-vet=off", "-ldflags=-checklinkname=0", "-overlay", ovPath}
	if *flagProp == "C18" {
		buildArgs = append(buildArgs, "-race") // C18 violations are confirmed by the race detector
	}
	buildArgs = append(buildArgs, "./"+dir)
	build := exec.Command("go", buildArgs...)
	build.Dir = *flagRepo
	build.Env = env
	if outb, err := build.CombinedOutput(); err != nil {
		s := string(outb)
		if len(s) > 1500 {
			s = s[len(s)-1500:]
		}
		return nil, fmt.Errorf("go test -c: %v: %s", err, s)
	}
	type nc struct {
		Harness string            `json:"harness"`
		Inputs  map[string]string `json:"inputs"`
	}
	runBatch := func(cases []nc, tag string, limitMem bool) ([]nativeResult, error) {
		cb, _ := json.Marshal(cases)
		casePath := filepath.Join(work, "cases-"+tag+".json")
		outPath := filepath.Join(work, "results-"+tag+".json")
		os.WriteFile(casePath, cb, 0644)
		sh := fmt.Sprintf("exec %s -test.run '^TestVerifReplay$' -test.timeout 120s", bin)
		if limitMem {
			sh = "ulimit -v 6000000; " + sh
		}
		cmd := exec.Command("timeout", "150", "bash", "-c", sh)
		cmd.Dir = filepath.Join(*flagRepo, dir)
		cmd.Env = append(env, "VERIF_REPLAY="+casePath, "VERIF_REPLAY_OUT="+outPath)
		var buf bytes.Buffer
		cmd.Stdout = &buf
		cmd.Stderr = &buf
		runErr := cmd.Run()
		rb, err := os.ReadFile(outPath)
		if err != nil {
			s := buf.String()
			if len(s) > 600 {
				s = s[len(s)-600:]
			}
			return nil, fmt.Errorf("replay process died (%v): %s", runErr, s)
		}
		var results []nativeResult
		if err := json.Unmarshal(rb, &results); err != nil {
			return nil, err
		}
		if strings.Contains(buf.String(), "WARNING: DATA RACE") {
			for i := range results {
				results[i].Race = true
			}
		}
		return results, nil
	}
	results := make([]nativeResult, len(jobs))
	// validation cases in one batch, violation cases one process each (they may kill the process)
	var batch []nc
	var batchIdx []int
	for i, j := range jobs {
		if j.viol == nil {
			batch = append(batch, nc{j.rc.Harness, j.rc.Inputs})
			batchIdx = append(batchIdx, i)
		}
	}
	if len(batch) > 0 {
		rs, err := runBatch(batch, "b", false)
		if err != nil {
			return nil, err
		}
		for k, i := range batchIdx {
			if k < len(rs) {
				results[i] = rs[k]
			}
		}
	}
	for i, j := range jobs {
		if j.viol == nil {
			continue
		}
		rs, err := runBatch([]nc{{j.rc.Harness, j.rc.Inputs}}, fmt.Sprintf("v%d", i), true)
		if err != nil || len(rs) != 1 {
			results[i] = nativeResult{Outcome: "killed", Panic: fmt.Sprint(err)}
			continue
		}
		results[i] = rs[0]
	}
	return results, nil
}
