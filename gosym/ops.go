package main

import (
	"fmt"
	"go/token"
	"go/types"
	"math"
	"reflect"
	"unicode/utf8"

	"golang.org/x/tools/go/ssa"
)

func (e *Exec) unop(ins *ssa.UnOp, x Value) Value {
	switch ins.Op {
	case token.MUL: // load
		return e.load(x, ins.Type())
	case token.NOT:
		return e.tb.Not(x.(*Term))
	case token.SUB:
		switch v := x.(type) {
		case *Term:
			return e.tb.BvNeg(v)
		case FloatV:
			return -v
		case ComplexV:
			return -v
		}
	case token.XOR:
		return e.tb.BvNot(x.(*Term))
	case token.ARROW:
		e.outside("channel receive")
	}
	panic(fmt.Sprintf("unop %v on %T", ins.Op, x))
}

func (e *Exec) strEq(a, b Value) *Term {
	switch x := a.(type) {
	case string:
		switch y := b.(type) {
		case string:
			return e.tb.Bool(x == y)
		case *SymStr:
			return e.symStrEqConst(y, x)
		}
	case *SymStr:
		switch y := b.(type) {
		case string:
			return e.symStrEqConst(x, y)
		case *SymStr:
			r := e.tb.Bool(false)
			for i, o := range x.Opts {
				r = e.tb.Or(r, e.tb.And(e.tb.Eq(x.Sel, e.tb.BV(8, uint64(i))), e.symStrEqConst(y, o)))
			}
			return r
		}
	}
	panic(fmt.Sprintf("strEq %T %T", a, b))
}

func (e *Exec) symStrEqConst(s *SymStr, c string) *Term {
	r := e.tb.Bool(false)
	for i, o := range s.Opts {
		if o == c {
			r = e.tb.Or(r, e.tb.Eq(s.Sel, e.tb.BV(8, uint64(i))))
		}
	}
	return r
}

func nativeIsNil(n Native) bool {
	switch n.V.Kind() {
	case reflect.Ptr, reflect.Map, reflect.Slice, reflect.Func, reflect.Interface, reflect.Chan, reflect.UnsafePointer:
		return n.V.IsNil()
	case reflect.Invalid:
		return true
	}
	return false
}

func nativeEq(a, b Native) bool {
	ka, kb := a.V.Kind(), b.V.Kind()
	if ka == reflect.Invalid || kb == reflect.Invalid {
		return nativeIsNil(a) && nativeIsNil(b)
	}
	switch ka {
	case reflect.Ptr, reflect.Map, reflect.Func, reflect.Chan, reflect.UnsafePointer:
		if kb != ka {
			return false
		}
		return a.V.Pointer() == b.V.Pointer()
	}
	if a.V.CanInterface() && b.V.CanInterface() {
		defer func() { recover() }()
		return a.V.Interface() == b.V.Interface()
	}
	return false
}

// equals returns a Bool term for a == b.
func (e *Exec) equals(a, b Value) *Term {
	switch x := a.(type) {
	case *Term:
		return e.tb.Eq(x, b.(*Term))
	case string, *SymStr:
		return e.strEq(a, b)
	case FloatV:
		return e.tb.Bool(x == b.(FloatV))
	case ComplexV:
		return e.tb.Bool(x == b.(ComplexV))
	case *Value:
		switch y := b.(type) {
		case *Value:
			return e.tb.Bool(x == y)
		case Native:
			return e.tb.Bool(x == nil && nativeIsNil(y))
		case nil:
			return e.tb.Bool(x == nil)
		}
	case Native:
		switch y := b.(type) {
		case Native:
			return e.tb.Bool(nativeEq(x, y))
		case *Value:
			return e.tb.Bool(y == nil && nativeIsNil(x))
		case nil:
			return e.tb.Bool(nativeIsNil(x))
		}
	case Iface:
		y := b.(Iface)
		if x.T == nil || y.T == nil {
			return e.tb.Bool(x.T == nil && y.T == nil)
		}
		if !e.typeIdentical(x.T, y.T) {
			return e.tb.Bool(false)
		}
		return e.equals(x.V, y.V)
	case Struct:
		y := b.(Struct)
		r := e.tb.Bool(true)
		for i := range x {
			r = e.tb.And(r, e.equals(x[i], y[i]))
		}
		return r
	case Array:
		y := b.(Array)
		r := e.tb.Bool(true)
		for i := range x {
			r = e.tb.And(r, e.equals(x[i], y[i]))
		}
		return r
	case *MapV:
		switch y := b.(type) {
		case *MapV:
			return e.tb.Bool(x == y)
		}
	case SliceV:
		y := b.(SliceV)
		if x.IsNil || y.IsNil {
			return e.tb.Bool(x.IsNil == y.IsNil || (len(x.Data) == 0 && len(y.Data) == 0 && (x.IsNil == y.IsNil)))
		}
		e.fault("comparing uncomparable type slice")
	case *Closure:
		switch y := b.(type) {
		case *Closure:
			return e.tb.Bool(x == y)
		case nil:
			return e.tb.Bool(x == nil)
		}
		return e.tb.Bool(false)
	case *ssa.Function:
		if b == nil {
			return e.tb.Bool(false)
		}
		return e.tb.Bool(a == b)
	case *CV:
		if y, ok := b.(*CV); ok {
			return e.tb.Bool(x == y)
		}
		return e.tb.Bool(false)
	case *ChanV:
		if y, ok := b.(*ChanV); ok {
			return e.tb.Bool(x == y)
		}
	case nil:
		switch y := b.(type) {
		case nil:
			return e.tb.Bool(true)
		case *Value:
			return e.tb.Bool(y == nil)
		case Native:
			return e.tb.Bool(nativeIsNil(y))
		case *Closure:
			return e.tb.Bool(y == nil)
		}
		return e.tb.Bool(false)
	}
	panic(fmt.Sprintf("equals: %T vs %T", a, b))
}

func (e *Exec) binop(op token.Token, t types.Type, x, y Value) Value {
	tb := e.tb
	switch op {
	case token.EQL:
		return e.equals(x, y)
	case token.NEQ:
		return tb.Not(e.equals(x, y))
	}
	switch a := x.(type) {
	case *Term:
		b := y.(*Term)
		if a.sort.K == SBool {
			switch op {
			case token.AND, token.LAND:
				return tb.And(a, b)
			case token.OR, token.LOR:
				return tb.Or(a, b)
			}
			panic("bool binop " + op.String())
		}
		_, signed, _ := isIntType(t)
		w := a.sort.W
		switch op {
		case token.ADD:
			return tb.bvBin("bvadd", a, b)
		case token.SUB:
			return tb.bvBin("bvsub", a, b)
		case token.MUL:
			return tb.bvBin("bvmul", a, b)
		case token.QUO, token.REM:
			if !e.decide(tb.Not(tb.Eq(b, tb.BV(w, 0)))) {
				e.fault("integer divide by zero")
			}
			if signed {
				if op == token.QUO {
					return tb.bvBin("bvsdiv", a, b)
				}
				return tb.bvBin("bvsrem", a, b)
			}
			if op == token.QUO {
				return tb.bvBin("bvudiv", a, b)
			}
			return tb.bvBin("bvurem", a, b)
		case token.AND:
			return tb.bvBin("bvand", a, b)
		case token.OR:
			return tb.bvBin("bvor", a, b)
		case token.XOR:
			return tb.bvBin("bvxor", a, b)
		case token.AND_NOT:
			return tb.bvBin("bvand", a, tb.BvNot(b))
		case token.SHL, token.SHR:
			// shift count may have a different width / signedness
			bw := b.sort.W
			var cnt *Term
			if bw < w {
				cnt = tb.ZExt(w-bw, b)
			} else if bw > w {
				// if count >= w the result saturates; clamp
				big := tb.bvCmp("bvule", tb.BV(bw, uint64(w)), b)
				cnt = tb.Ite(big, tb.BV(w, uint64(w)), tb.Extract(w-1, 0, b))
			} else {
				cnt = b
			}
			if op == token.SHL {
				return tb.bvBin("bvshl", a, cnt)
			}
			if signed {
				return tb.bvBin("bvashr", a, cnt)
			}
			return tb.bvBin("bvlshr", a, cnt)
		case token.LSS:
			if signed {
				return tb.bvCmp("bvslt", a, b)
			}
			return tb.bvCmp("bvult", a, b)
		case token.LEQ:
			if signed {
				return tb.bvCmp("bvsle", a, b)
			}
			return tb.bvCmp("bvule", a, b)
		case token.GTR:
			if signed {
				return tb.bvCmp("bvslt", b, a)
			}
			return tb.bvCmp("bvult", b, a)
		case token.GEQ:
			if signed {
				return tb.bvCmp("bvsle", b, a)
			}
			return tb.bvCmp("bvule", b, a)
		}
	case string, *SymStr:
		switch op {
		case token.ADD:
			return e.strConcat(x, y)
		case token.LSS, token.LEQ, token.GTR, token.GEQ:
			s1, s2 := e.concString(x), e.concString(y)
			switch op {
			case token.LSS:
				return tb.Bool(s1 < s2)
			case token.LEQ:
				return tb.Bool(s1 <= s2)
			case token.GTR:
				return tb.Bool(s1 > s2)
			case token.GEQ:
				return tb.Bool(s1 >= s2)
			}
		}
	case FloatV:
		b := y.(FloatV)
		switch op {
		case token.ADD:
			return a + b
		case token.SUB:
			return a - b
		case token.MUL:
			return a * b
		case token.QUO:
			return a / b
		case token.LSS:
			return tb.Bool(a < b)
		case token.LEQ:
			return tb.Bool(a <= b)
		case token.GTR:
			return tb.Bool(a > b)
		case token.GEQ:
			return tb.Bool(a >= b)
		}
	case ComplexV:
		b := y.(ComplexV)
		switch op {
		case token.ADD:
			return a + b
		case token.SUB:
			return a - b
		case token.MUL:
			return a * b
		case token.QUO:
			return a / b
		}
	}
	panic(fmt.Sprintf("binop %v on %T,%T", op, x, y))
}

func (e *Exec) strConcat(x, y Value) Value {
	switch a := x.(type) {
	case string:
		switch b := y.(type) {
		case string:
			return a + b
		case *SymStr:
			opts := make([]string, len(b.Opts))
			for i, o := range b.Opts {
				opts[i] = a + o
			}
			return &SymStr{Opts: opts, Sel: b.Sel}
		}
	case *SymStr:
		switch b := y.(type) {
		case string:
			opts := make([]string, len(a.Opts))
			for i, o := range a.Opts {
				opts[i] = o + b
			}
			return &SymStr{Opts: opts, Sel: a.Sel}
		case *SymStr:
			return e.concString(a) + e.concString(b)
		}
	}
	panic("strConcat")
}

func (e *Exec) strLen(x Value) *Term {
	switch s := x.(type) {
	case string:
		return e.tb.BV(64, uint64(len(s)))
	case *SymStr:
		r := e.tb.BV(64, uint64(len(s.Opts[len(s.Opts)-1])))
		for i := len(s.Opts) - 2; i >= 0; i-- {
			r = e.tb.Ite(e.tb.Eq(s.Sel, e.tb.BV(8, uint64(i))), e.tb.BV(64, uint64(len(s.Opts[i]))), r)
		}
		return r
	}
	panic("strLen")
}

func (e *Exec) conv(dst, src types.Type, x Value) Value {
	ud, us := dst.Underlying(), src.Underlying()
	// type parameters are instantiated away; handle pointer/unsafe first
	switch ud := ud.(type) {
	case *types.Pointer, *types.Signature, *types.Map, *types.Chan, *types.Struct, *types.Array, *types.Interface:
		_ = ud
		return x
	case *types.Slice:
		switch xs := x.(type) {
		case string, *SymStr:
			s := e.concString(xs)
			eb, _ := ud.Elem().Underlying().(*types.Basic)
			if eb != nil && eb.Kind() == types.Uint8 {
				data := make([]Value, len(s))
				for i := 0; i < len(s); i++ {
					data[i] = e.tb.BV(8, uint64(s[i]))
				}
				return SliceV{Data: data}
			}
			rs := []rune(s)
			data := make([]Value, len(rs))
			for i, r := range rs {
				data[i] = e.tb.BV(32, uint64(r))
			}
			return SliceV{Data: data}
		}
		return x
	case *types.Basic:
		if ud.Kind() == types.UnsafePointer {
			return x
		}
		if dw, _, ok := intWidth(ud); ok {
			switch v := x.(type) {
			case *Term:
				_, ssigned, _ := isIntType(src)
				return e.tb.Resize(v, dw, ssigned)
			case FloatV:
				f := float64(v)
				if math.IsNaN(f) || math.IsInf(f, 0) {
					return e.tb.BV(dw, 0)
				}
				if _, ds, _ := intWidth(ud); ds {
					return e.tb.BV(dw, uint64(int64(f)))
				}
				return e.tb.BV(dw, uint64(f))
			case *Value, Native: // uintptr(unsafe.Pointer): an arbitrary address, equal for equal pointers
				k, _ := concKey(v)
				if n, isN := v.(Native); isN && nativeIsNil(n) {
					return e.tb.BV(dw, 0)
				}
				if p, isP := v.(*Value); isP && p == nil {
					return e.tb.BV(dw, 0)
				}
				t, ok := e.ptrInts[k]
				if !ok {
					if e.symAddrs {
						t = e.tb.Var(fmt.Sprintf("addr!%d", len(e.ptrInts)), sortBV(64))
						e.assume(e.tb.Not(e.tb.Eq(t, e.tb.BV(64, 0))))
					} else {
						// deterministic pseudo-address (distinct per object, stable across re-executions)
						t = e.tb.BV(64, 0xc000100000+uint64(len(e.ptrInts))*4099*16)
					}
					e.ptrInts[k] = t
				}
				return e.tb.Resize(t, dw, false)
			}
		}
		if ud.Info()&types.IsFloat != 0 {
			switch v := x.(type) {
			case FloatV:
				if ud.Kind() == types.Float32 {
					return FloatV(float32(v))
				}
				return v
			case *Term:
				u := e.concretize(v)
				_, ssigned, _ := isIntType(src)
				var f float64
				if ssigned {
					f = float64(e.tb.BV(v.sort.W, u).sval())
				} else {
					f = float64(u)
				}
				if ud.Kind() == types.Float32 {
					f = float64(float32(f))
				}
				return FloatV(f)
			}
		}
		if ud.Info()&types.IsComplex != 0 {
			return x
		}
		if ud.Info()&types.IsString != 0 {
			switch v := x.(type) {
			case string, *SymStr:
				return v
			case *Term: // string(rune)
				_, ssigned, _ := isIntType(src)
				u := e.concretize(v)
				var r rune
				if ssigned {
					sv := e.tb.BV(v.sort.W, u).sval()
					if sv < 0 || sv > utf8.MaxRune {
						r = utf8.RuneError
					} else {
						r = rune(sv)
					}
				} else if u > utf8.MaxRune {
					r = utf8.RuneError
				} else {
					r = rune(u)
				}
				return string(r)
			case SliceV:
				if sb, ok := us.(*types.Slice); ok {
					eb := sb.Elem().Underlying().(*types.Basic)
					if eb.Kind() == types.Uint8 {
						bs := make([]byte, len(v.Data))
						for i, c := range v.Data {
							bs[i] = byte(e.concretize(c.(*Term)))
						}
						return string(bs)
					}
					rs := make([]rune, len(v.Data))
					for i, c := range v.Data {
						rs[i] = rune(e.concInt(c))
					}
					return string(rs)
				}
			}
		}
		if ud.Info()&types.IsBoolean != 0 {
			return x
		}
	}
	panic(fmt.Sprintf("conv %v -> %v (%T)", src, dst, x))
}

// ---------- maps ----------

func (e *Exec) mapFind(m *MapV, key Value) *mapEntry {
	if m == nil {
		return nil
	}
	if ck, ok := concKey(key); ok {
		if en, ok := m.conc[ck]; ok {
			return en
		}
		if m.nsym == 0 {
			return nil
		}
	}
	// slow path: compare with every entry (symbolic)
	for _, en := range m.order {
		if e.decide(e.equals(en.k, key)) {
			return en
		}
	}
	return nil
}

func (e *Exec) lookup(ins *ssa.Lookup, x, key Value) Value {
	switch m := x.(type) {
	case *MapV:
		en := e.mapFind(m, key)
		var v Value
		if en != nil {
			v = copyVal(en.v)
		} else {
			v = e.zero(ins.X.Type().Underlying().(*types.Map).Elem())
		}
		if ins.CommaOk {
			return Tuple{v, e.tb.Bool(en != nil)}
		}
		return v
	case Native:
		if m.V.Kind() == reflect.Map {
			mt := ins.X.Type().Underlying().(*types.Map)
			var rv reflect.Value
			if !m.V.IsNil() {
				rv = m.V.MapIndex(e.toNative(key, m.V.Type().Key()))
			}
			var v Value
			if rv.IsValid() {
				v = e.fromNative(rv, mt.Elem())
			} else {
				v = e.zero(mt.Elem())
			}
			if ins.CommaOk {
				return Tuple{v, e.tb.Bool(rv.IsValid())}
			}
			return v
		}
	case string, *SymStr:
		// string index handled by Index; Lookup on string appears for s[i]
		s := e.concString(m)
		i := e.boundsIndex(key.(*Term), len(s), "string")
		return e.tb.BV(8, uint64(s[i]))
	}
	panic(fmt.Sprintf("lookup on %T", x))
}

func (e *Exec) mapUpdate(mv, key, val Value) {
	switch m := mv.(type) {
	case *MapV:
		if m == nil {
			e.fault("assignment to entry in nil map")
		}
		e.noteGlobalMapWrite(m)
		if en := e.mapFind(m, key); en != nil {
			en.v = copyVal(val)
			return
		}
		en := &mapEntry{k: key, v: copyVal(val)}
		if ck, ok := concKey(key); ok {
			m.conc[ck] = en
		} else {
			m.nsym++
		}
		m.order = append(m.order, en)
		return
	case Native:
		if m.V.Kind() == reflect.Map {
			if m.V.IsNil() {
				e.fault("assignment to entry in nil map (native)")
			}
			m.V.SetMapIndex(e.toNative(key, m.V.Type().Key()), e.toNative(val, m.V.Type().Elem()))
			return
		}
	}
	panic(fmt.Sprintf("mapUpdate on %T", mv))
}

// noteGlobalMapWrite records an insert/update/delete on a map reachable from package-level state (C18 monitor).
func (e *Exec) noteGlobalMapWrite(m *MapV) {
	if e.globalMaps == nil {
		return
	}
	if name, ok := e.globalMaps[m]; ok {
		where := name + " (map) written in " + e.curFnName()
		e.res.mu.Lock()
		e.res.GlobalWrites[where]++
		e.res.mu.Unlock()
		e.globalWriteSeen = append(e.globalWriteSeen, where)
	}
}

func (e *Exec) mapDelete(mv, key Value) {
	m, ok := mv.(*MapV)
	if !ok {
		if n, isN := mv.(Native); isN && n.V.Kind() == reflect.Map {
			n.V.SetMapIndex(e.toNative(key, n.V.Type().Key()), reflect.Value{})
			return
		}
		panic("delete on non-map")
	}
	if m == nil {
		return
	}
	en := e.mapFind(m, key)
	if en == nil {
		return
	}
	e.noteGlobalMapWrite(m)
	if ck, ok := concKey(en.k); ok {
		delete(m.conc, ck)
	} else {
		m.nsym--
	}
	for i, o := range m.order {
		if o == en {
			m.order = append(m.order[:i:i], m.order[i+1:]...)
			break
		}
	}
}

// ---------- iterators ----------

type iterator interface {
	next(e *Exec) Value
}

type mapIter struct {
	m      *MapV
	remain []*mapEntry
	arb    bool
}

func (it *mapIter) next(e *Exec) Value {
	// skip entries deleted during iteration
	for len(it.remain) > 0 {
		i := 0
		if it.arb && len(it.remain) > 1 {
			i = e.choose(len(it.remain))
		}
		en := it.remain[i]
		it.remain = append(it.remain[:i:i], it.remain[i+1:]...)
		alive := false
		for _, o := range it.m.order {
			if o == en {
				alive = true
				break
			}
		}
		if alive {
			return Tuple{e.tb.Bool(true), en.k, copyVal(en.v)}
		}
	}
	return Tuple{e.tb.Bool(false), nil, nil}
}

type strIter struct {
	s   string
	pos int
}

func (it *strIter) next(e *Exec) Value {
	if it.pos >= len(it.s) {
		return Tuple{e.tb.Bool(false), e.tb.BV(64, 0), e.tb.BV(32, 0)}
	}
	r, sz := utf8.DecodeRuneInString(it.s[it.pos:])
	p := it.pos
	it.pos += sz
	return Tuple{e.tb.Bool(true), e.tb.BV(64, uint64(p)), e.tb.BV(32, uint64(r))}
}

type nativeMapIter struct {
	keys []reflect.Value
	m    reflect.Value
	kt   types.Type
	vt   types.Type
	pos  int
}

func (it *nativeMapIter) next(e *Exec) Value {
	for it.pos < len(it.keys) {
		k := it.keys[it.pos]
		it.pos++
		v := it.m.MapIndex(k)
		if v.IsValid() {
			return Tuple{e.tb.Bool(true), e.fromNative(k, it.kt), e.fromNative(v, it.vt)}
		}
	}
	return Tuple{e.tb.Bool(false), nil, nil}
}

func (e *Exec) rangeIter(x Value, t types.Type) iterator {
	switch v := x.(type) {
	case *MapV:
		it := &mapIter{m: v, arb: e.mapArb}
		if v != nil {
			it.remain = append(it.remain, v.order...)
		} else {
			it.m = &MapV{}
		}
		return it
	case string, *SymStr:
		return &strIter{s: e.concString(v)}
	case Native:
		if v.V.Kind() == reflect.Map {
			mt := t.Underlying().(*types.Map)
			keys := v.V.MapKeys()
			sortReflectKeys(keys)
			return &nativeMapIter{keys: keys, m: v.V, kt: mt.Key(), vt: mt.Elem()}
		}
	}
	panic(fmt.Sprintf("range over %T", x))
}

func sortReflectKeys(keys []reflect.Value) {
	if len(keys) == 0 {
		return
	}
	if keys[0].Kind() == reflect.String {
		for i := 1; i < len(keys); i++ {
			for j := i; j > 0 && keys[j].String() < keys[j-1].String(); j-- {
				keys[j], keys[j-1] = keys[j-1], keys[j]
			}
		}
	}
}
