package main

// SMT model of go/constant (read from go1.23 value.go).  Int values are
// mathematical integers, Float values exact rationals (go/constant keeps
// rationals exact while numerator/denominator stay below 2^4096; beyond that it
// switches to 512-bit floats: outside this model, stated in DESIGN.md).

import (
	"fmt"
	"go/constant"
	"go/token"
	"go/types"
	"math"
	"math/big"
	"reflect"

	"golang.org/x/tools/go/ssa"
)

type CV struct {
	K  constant.Kind
	B  *Term // Bool
	S  Value // string | *SymStr
	I  *Term // Int
	Re *Term // Real (Float, Complex)
	Im *Term // Real (Complex)
}

var cvFakeType types.Type = types.NewNamed(types.NewTypeName(token.NoPos, nil, "constant.value", nil), types.NewStruct(nil, nil), nil)

func (c *CV) concrete() bool {
	switch c.K {
	case constant.Bool:
		return c.B.IsConst()
	case constant.String:
		_, ok := c.S.(string)
		return ok
	case constant.Int:
		return c.I.IsConst()
	case constant.Float:
		return c.Re.IsConst()
	case constant.Complex:
		return c.Re.IsConst() && c.Im.IsConst()
	}
	return true
}

func (e *Exec) cvIface(c *CV) Value { return Iface{T: cvFakeType, V: c} }

func (e *Exec) cvUnknown() *CV { return &CV{K: constant.Unknown} }
func (e *Exec) cvInt(t *Term) *CV { return &CV{K: constant.Int, I: t} }
func (e *Exec) cvFloat(t *Term) *CV { return &CV{K: constant.Float, Re: t} }
func (e *Exec) cvBool(t *Term) *CV { return &CV{K: constant.Bool, B: t} }
func (e *Exec) cvStr(s Value) *CV  { return &CV{K: constant.String, S: s} }
func (e *Exec) cvComplex(re, im *Term) *CV {
	return &CV{K: constant.Complex, Re: re, Im: im}
}

func ratOfConst(v constant.Value) *big.Rat {
	switch x := constant.Val(v).(type) {
	case int64:
		return new(big.Rat).SetInt64(x)
	case *big.Int:
		return new(big.Rat).SetInt(x)
	case *big.Rat:
		return x
	case *big.Float:
		r, _ := x.Rat(nil)
		return r
	}
	return new(big.Rat)
}

func (e *Exec) cvFromReal(v constant.Value) *CV {
	switch v.Kind() {
	case constant.Bool:
		return e.cvBool(e.tb.Bool(constant.BoolVal(v)))
	case constant.String:
		return e.cvStr(constant.StringVal(v))
	case constant.Int:
		switch x := constant.Val(v).(type) {
		case int64:
			return e.cvInt(e.tb.Int64(x))
		case *big.Int:
			return e.cvInt(e.tb.Int(x))
		}
	case constant.Float:
		return e.cvFloat(e.tb.Real(ratOfConst(v)))
	case constant.Complex:
		return e.cvComplex(e.tb.Real(ratOfConst(constant.Real(v))), e.tb.Real(ratOfConst(constant.Imag(v))))
	}
	return e.cvUnknown()
}

func realOfRat(r *big.Rat) constant.Value {
	if r.IsInt() {
		return constant.ToFloat(constant.Make(new(big.Int).Set(r.Num())))
	}
	return constant.Make(new(big.Rat).Set(r))
}

func (e *Exec) cvToReal(c *CV) constant.Value {
	if !c.concrete() {
		e.outside("symbolic constant passed to native code")
	}
	switch c.K {
	case constant.Bool:
		return constant.MakeBool(c.B.u != 0)
	case constant.String:
		return constant.MakeString(c.S.(string))
	case constant.Int:
		return constant.Make(new(big.Int).Set(c.I.i))
	case constant.Float:
		return realOfRat(c.Re.r)
	case constant.Complex:
		return constant.BinaryOp(realOfRat(c.Re.r), token.ADD, constant.MakeImag(realOfRat(c.Im.r)))
	}
	return constant.MakeUnknown()
}

func (e *Exec) argCV(v Value) *CV {
	ifc, ok := v.(Iface)
	if !ok || ifc.T == nil {
		// the package functions switch on the dynamic type and end in panic(fmt.Sprintf(…)) for a
		// nil Value: a message panic, not a run-time fault (Val, ToInt, ToFloat, ToComplex accept nil
		// and are special-cased by their intrinsics)
		e.cvPanic("<nil> is not a valid constant operand")
	}
	switch x := ifc.V.(type) {
	case *CV:
		return x
	case Native:
		if cv, ok := x.V.Interface().(constant.Value); ok {
			return e.cvFromReal(cv)
		}
	}
	panic(fmt.Sprintf("argCV: %T", ifc.V))
}

func (e *Exec) zeroReal() *Term { return e.tb.Real(new(big.Rat)) }

// rank follows go/constant.ord: unknown 0, bool/string 1, Int 2, Float 3, Complex 4
func cvRank(c *CV) int {
	switch c.K {
	case constant.Bool, constant.String:
		return 1
	case constant.Int:
		return 2
	case constant.Float:
		return 3
	case constant.Complex:
		return 4
	}
	return 0
}

func (e *Exec) cvTo(c *CV, rank int) *CV {
	switch rank {
	case 3:
		if c.K == constant.Int {
			return e.cvFloat(e.tb.ToReal(c.I))
		}
	case 4:
		switch c.K {
		case constant.Int:
			return e.cvComplex(e.tb.ToReal(c.I), e.zeroReal())
		case constant.Float:
			return e.cvComplex(c.Re, e.zeroReal())
		}
	}
	return c
}

// cvMatch mirrors go/constant.match/match0: the lower-ranked numeric operand is
// promoted; a non-numeric lower-ranked operand is returned twice ("x, x").
func (e *Exec) cvMatch(x, y *CV) (*CV, *CV) {
	rx, ry := cvRank(x), cvRank(y)
	switch {
	case rx < ry:
		if rx >= 2 {
			return e.cvTo(x, ry), y
		}
		return x, x
	case rx > ry:
		if ry >= 2 {
			return x, e.cvTo(y, rx)
		}
		return y, y
	}
	return x, y
}

func (e *Exec) cvPanic(msg string) {
	e.userPanic(Iface{T: types.Typ[types.String], V: msg}, "go/constant: "+msg)
}

var pow2cache = map[uint]*big.Int{}

func pow2(n uint) *big.Int { return new(big.Int).Lsh(big.NewInt(1), n) }

// intBitop encodes &,|,^,&^ on unbounded two's complement integers.
func (e *Exec) intBitop(op token.Token, a, b *Term) *Term {
	tb := e.tb
	if a.IsConst() && b.IsConst() {
		z := new(big.Int)
		switch op {
		case token.AND:
			z.And(a.i, b.i)
		case token.OR:
			z.Or(a.i, b.i)
		case token.XOR:
			z.Xor(a.i, b.i)
		case token.AND_NOT:
			z.AndNot(a.i, b.i)
		}
		return tb.Int(z)
	}
	// machine-integer shaped operands: exact bit-vector semantics at 66 bits
	if x, ok := e.asBV66(a); ok {
		if y, ok := e.asBV66(b); ok {
			var r *Term
			switch op {
			case token.AND:
				r = tb.bvBin("bvand", x, y)
			case token.OR:
				r = tb.bvBin("bvor", x, y)
			case token.XOR:
				r = tb.bvBin("bvxor", x, y)
			case token.AND_NOT:
				r = tb.bvBin("bvand", x, tb.BvNot(y))
			}
			return tb.Bv2Int(r, true)
		}
	}
	// unbounded symbolic integers: uninterpreted function with sign/magnitude axioms.
	// Models may be spurious (reported as such after native replay), verdicts on
	// syntactically equal folds are unaffected.
	e.approx = true
	names := map[token.Token]string{token.AND: "bitand", token.OR: "bitor", token.XOR: "bitxor", token.AND_NOT: "bitandnot"}
	r := tb.UF(names[op], sortInt, a, b)
	zero := tb.Int64(0)
	an, bn := tb.Lt(a, zero), tb.Lt(b, zero)
	ap, bp := tb.Not(an), tb.Not(bn)
	imp := func(p, q *Term) *Term { return tb.Or(tb.Not(p), q) }
	between := func(lo, x, hi *Term) *Term { return tb.And(tb.Le(lo, x), tb.Le(x, hi)) }
	switch op {
	case token.AND:
		e.assume(imp(ap, between(zero, r, a)))
		e.assume(imp(bp, between(zero, r, b)))
		e.assume(imp(tb.And(an, bn), tb.And(tb.And(tb.Le(r, a), tb.Le(r, b)), tb.Le(tb.Add(a, b), r))))
	case token.OR:
		e.assume(imp(tb.Or(an, bn), tb.Lt(r, zero)))
		e.assume(imp(tb.And(ap, bp), tb.And(tb.And(tb.Le(a, r), tb.Le(b, r)), tb.Le(r, tb.Add(a, b)))))
		e.assume(imp(an, tb.Le(a, r)))
		e.assume(imp(bn, tb.Le(b, r)))
	case token.XOR:
		e.assume(tb.Eq(tb.Lt(r, zero), tb.Not(tb.Eq(an, bn))))
		absA := tb.Ite(an, tb.Neg(a), a)
		absB := tb.Ite(bn, tb.Neg(b), b)
		sum := tb.Add(absA, absB)
		e.assume(between(tb.Sub(tb.Neg(sum), tb.Int64(1)), r, sum))
	case token.AND_NOT:
		e.assume(imp(ap, between(zero, r, a)))
		e.assume(imp(tb.And(an, bn), between(zero, r, tb.Sub(tb.Neg(b), tb.Int64(1)))))
		e.assume(imp(tb.And(an, bp), tb.And(tb.Le(r, a), tb.Le(tb.Sub(a, b), r))))
	}
	return r
}

// asBV66 recognises integer terms that are conversions of machine integers.
func (e *Exec) asBV66(t *Term) (*Term, bool) {
	tb := e.tb
	switch t.op {
	case "const":
		if t.i.IsInt64() {
			return tb.SExt(2, tb.BV(64, uint64(t.i.Int64()))), true
		}
		if t.i.IsUint64() {
			return tb.ZExt(2, tb.BV(64, t.i.Uint64())), true
		}
	case "sbv2int":
		return tb.SExt(66-t.args[0].sort.W, t.args[0]), true
	case "bv2nat":
		return tb.ZExt(66-t.args[0].sort.W, t.args[0]), true
	}
	return nil, false
}

// truncating quotient and remainder (Go semantics) from SMT euclidean div/mod
func (e *Exec) truncDivRem(a, b *Term) (q, r *Term) {
	tb := e.tb
	if a.IsConst() && b.IsConst() && b.i.Sign() != 0 {
		qq, rr := new(big.Int).QuoRem(a.i, b.i, new(big.Int))
		return tb.Int(qq), tb.Int(rr)
	}
	zero := tb.Int64(0)
	absA := tb.Ite(tb.Lt(a, zero), tb.Neg(a), a)
	absB := tb.Ite(tb.Lt(b, zero), tb.Neg(b), b)
	qa := tb.IDiv(absA, absB)
	ra := tb.IMod(absA, absB)
	sameSign := tb.Eq(tb.Lt(a, zero), tb.Lt(b, zero))
	q = tb.Ite(sameSign, qa, tb.Neg(qa))
	r = tb.Ite(tb.Lt(a, zero), tb.Neg(ra), ra)
	return
}

func (e *Exec) cvBinaryOp(x *CV, op token.Token, y *CV) *CV {
	tb := e.tb
	x, y = e.cvMatch(x, y)
	if x.K == constant.Unknown || y.K == constant.Unknown {
		// go/constant: match returns (x,x)/(y,y) for unknown => result unknown
		return e.cvUnknown()
	}
	if x.K != y.K {
		// mismatched kinds reach a failed type assertion inside BinaryOp
		e.fault("interface conversion: constant.Value is %v, not %v (go/constant.BinaryOp)", y.K, x.K)
	}
	bad := func() {
		e.cvPanic(fmt.Sprintf("invalid binary operation %v %s %v", x.K, op, y.K))
	}
	switch x.K {
	case constant.Bool:
		switch op {
		case token.LAND:
			return e.cvBool(tb.And(x.B, y.B))
		case token.LOR:
			return e.cvBool(tb.Or(x.B, y.B))
		}
		bad()
	case constant.Int:
		a, b := x.I, y.I
		switch op {
		case token.ADD:
			return e.cvInt(tb.Add(a, b))
		case token.SUB:
			return e.cvInt(tb.Sub(a, b))
		case token.MUL:
			return e.cvInt(tb.Mul(a, b))
		case token.QUO:
			if !e.decide(tb.Not(tb.Eq(b, tb.Int64(0)))) {
				e.cvPanic("division by zero")
			}
			return e.cvFloat(tb.RDiv(tb.ToReal(a), tb.ToReal(b)))
		case token.QUO_ASSIGN, token.REM:
			if !e.decide(tb.Not(tb.Eq(b, tb.Int64(0)))) {
				// int64 representation: Go run-time divide error; big representation: math/big panics
				small := tb.And(tb.Le(tb.Int(int64Lo), a), tb.Lt(a, tb.Int(int64Hi)))
				if e.decide(small) {
					e.fault("integer divide by zero (go/constant.BinaryOp)")
				}
				e.cvPanic("division by zero")
			}
			q, r := e.truncDivRem(a, b)
			if op == token.REM {
				return e.cvInt(r)
			}
			return e.cvInt(q)
		case token.AND, token.OR, token.XOR, token.AND_NOT:
			return e.cvInt(e.intBitop(op, a, b))
		}
		bad()
	case constant.Float:
		a, b := x.Re, y.Re
		switch op {
		case token.ADD:
			return e.cvFloat(tb.Add(a, b))
		case token.SUB:
			return e.cvFloat(tb.Sub(a, b))
		case token.MUL:
			return e.cvFloat(tb.Mul(a, b))
		case token.QUO:
			if !e.decide(tb.Not(tb.Eq(b, e.zeroReal()))) {
				e.cvPanic("division by zero")
			}
			return e.cvFloat(tb.RDiv(a, b))
		}
		bad()
	case constant.Complex:
		a, b, c, d := x.Re, x.Im, y.Re, y.Im
		switch op {
		case token.ADD:
			return e.cvComplex(tb.Add(a, c), tb.Add(b, d))
		case token.SUB:
			return e.cvComplex(tb.Sub(a, c), tb.Sub(b, d))
		case token.MUL:
			return e.cvComplex(tb.Sub(tb.Mul(a, c), tb.Mul(b, d)), tb.Add(tb.Mul(b, c), tb.Mul(a, d)))
		case token.QUO:
			s := tb.Add(tb.Mul(c, c), tb.Mul(d, d))
			if !e.decide(tb.Not(tb.Eq(s, e.zeroReal()))) {
				e.cvPanic("division by zero")
			}
			re := tb.RDiv(tb.Add(tb.Mul(a, c), tb.Mul(b, d)), s)
			im := tb.RDiv(tb.Sub(tb.Mul(b, c), tb.Mul(a, d)), s)
			return e.cvComplex(re, im)
		}
		bad()
	case constant.String:
		if op == token.ADD {
			return e.cvStr(e.strConcat(x.S, y.S))
		}
		bad()
	}
	bad()
	return nil
}

func (e *Exec) cmpTerms(a *Term, op token.Token, b *Term) *Term {
	tb := e.tb
	switch op {
	case token.EQL:
		return tb.Eq(a, b)
	case token.NEQ:
		return tb.Not(tb.Eq(a, b))
	case token.LSS:
		return tb.Lt(a, b)
	case token.LEQ:
		return tb.Le(a, b)
	case token.GTR:
		return tb.Lt(b, a)
	case token.GEQ:
		return tb.Le(b, a)
	}
	e.cvPanic(fmt.Sprintf("invalid comparison %s", op))
	return nil
}

func (e *Exec) cvCompare(x *CV, op token.Token, y *CV) *Term {
	tb := e.tb
	x, y = e.cvMatch(x, y)
	if x.K == constant.Unknown || y.K == constant.Unknown {
		return tb.Bool(false)
	}
	if x.K != y.K {
		e.fault("interface conversion in go/constant.Compare (%v vs %v)", x.K, y.K)
	}
	switch x.K {
	case constant.Bool:
		switch op {
		case token.EQL:
			return tb.Eq(x.B, y.B)
		case token.NEQ:
			return tb.Not(tb.Eq(x.B, y.B))
		}
	case constant.Int:
		return e.cmpTerms(x.I, op, y.I)
	case constant.Float:
		return e.cmpTerms(x.Re, op, y.Re)
	case constant.Complex:
		eq := tb.And(tb.Eq(x.Re, y.Re), tb.Eq(x.Im, y.Im))
		switch op {
		case token.EQL:
			return eq
		case token.NEQ:
			return tb.Not(eq)
		}
	case constant.String:
		switch op {
		case token.EQL:
			return e.strEq(x.S, y.S)
		case token.NEQ:
			return tb.Not(e.strEq(x.S, y.S))
		}
		s1, s2 := e.concString(x.S), e.concString(y.S)
		switch op {
		case token.LSS:
			return tb.Bool(s1 < s2)
		case token.LEQ:
			return tb.Bool(s1 <= s2)
		case token.GTR:
			return tb.Bool(s1 > s2)
		case token.GEQ:
			return tb.Bool(s1 >= s2)
		}
	}
	e.cvPanic(fmt.Sprintf("invalid comparison %v %s %v", x.K, op, y.K))
	return nil
}

func (e *Exec) cvUnaryOp(op token.Token, y *CV, prec uint64) *CV {
	tb := e.tb
	switch op {
	case token.ADD:
		switch y.K {
		case constant.Unknown, constant.Int, constant.Float, constant.Complex:
			return y
		}
	case token.SUB:
		switch y.K {
		case constant.Unknown:
			return y
		case constant.Int:
			return e.cvInt(tb.Neg(y.I))
		case constant.Float:
			return e.cvFloat(tb.Neg(y.Re))
		case constant.Complex:
			return e.cvComplex(tb.Neg(y.Re), tb.Neg(y.Im))
		}
	case token.XOR:
		switch y.K {
		case constant.Unknown:
			return y
		case constant.Int:
			z := tb.Sub(tb.Neg(y.I), tb.Int64(1))
			if prec > 0 {
				if prec > 4096 {
					e.outside("UnaryOp ^ with prec %d", prec)
				}
				z = tb.IMod(z, tb.Int(pow2(uint(prec))))
			}
			return e.cvInt(z)
		}
	case token.NOT:
		switch y.K {
		case constant.Unknown:
			return y
		case constant.Bool:
			return e.cvBool(tb.Not(y.B))
		}
	}
	e.cvPanic(fmt.Sprintf("invalid unary operation %s%v", op, y.K))
	return nil
}

func (e *Exec) cvToInt(x *CV) *CV {
	switch x.K {
	case constant.Int:
		return x
	case constant.Float:
		if e.decide(e.tb.IsIntReal(x.Re)) {
			return e.cvInt(e.tb.ToInt(x.Re))
		}
	case constant.Complex:
		if e.decide(e.tb.Eq(x.Im, e.zeroReal())) {
			return e.cvToInt(e.cvFloat(x.Re))
		}
	}
	return e.cvUnknown()
}

func (e *Exec) cvToFloat(x *CV) *CV {
	switch x.K {
	case constant.Int:
		return e.cvFloat(e.tb.ToReal(x.I))
	case constant.Float:
		return x
	case constant.Complex:
		if e.decide(e.tb.Eq(x.Im, e.zeroReal())) {
			return e.cvFloat(x.Re)
		}
	}
	return e.cvUnknown()
}

func (e *Exec) cvSign(x *CV) *Term {
	tb := e.tb
	sg := func(t *Term, zero *Term) *Term {
		return tb.Ite(tb.Lt(t, zero), tb.BV(64, ^uint64(0)), tb.Ite(tb.Eq(t, zero), tb.BV(64, 0), tb.BV(64, 1)))
	}
	switch x.K {
	case constant.Int:
		return sg(x.I, tb.Int64(0))
	case constant.Float:
		return sg(x.Re, e.zeroReal())
	case constant.Complex:
		z := e.zeroReal()
		return tb.Ite(tb.And(tb.Eq(x.Re, z), tb.Eq(x.Im, z)), tb.BV(64, 0), tb.BV(64, 1))
	case constant.Unknown:
		return tb.BV(64, 1)
	}
	e.cvPanic(fmt.Sprintf("%v not numeric", x.K))
	return nil
}

func (e *Exec) cvShift(x *CV, op token.Token, s *Term) *CV {
	tb := e.tb
	if x.K == constant.Unknown {
		return x
	}
	if x.K != constant.Int {
		e.cvPanic(fmt.Sprintf("invalid shift %v %s", x.K, op))
	}
	// resource precondition (C17): constant.Shift(x, SHL, s) allocates about s bits for x != 0
	const shiftBound = 1 << 33
	if op == token.SHL {
		big := tb.And(tb.Not(tb.Eq(x.I, tb.Int64(0))), tb.Not(tb.bvCmp("bvule", s, tb.BV(64, shiftBound))))
		if e.decide(big) {
			e.resourceFault("go/constant.Shift", fmt.Sprintf("left shift of a non-zero constant by more than 2^33 bits allocates more than a gigabyte in math/big"))
		}
	}
	if s.IsConst() && s.u > 1<<20 {
		e.outside("constant shift by a concrete count above 2^20")
	}
	if s.IsConst() {
		p := tb.Int(pow2(uint(s.u)))
		switch op {
		case token.SHL:
			return e.cvInt(tb.Mul(x.I, p))
		case token.SHR:
			return e.cvInt(tb.IDiv(x.I, p)) // floor, as big.Int.Rsh (arithmetic shift)
		}
		e.cvPanic(fmt.Sprintf("invalid shift %v %s", x.K, op))
	}
	// symbolic count: the result is an uninterpreted function of (x, s) with sign and
	// magnitude axioms.  Accept/reject logic stays exact; values are approximate, so models
	// touching them may be spurious (native replay decides).
	e.approx = true
	si := tb.Bv2Int(s, false)
	zero := tb.Int64(0)
	imp := func(p, q *Term) *Term { return tb.Or(tb.Not(p), q) }
	xpos, xneg, xz := tb.Lt(zero, x.I), tb.Lt(x.I, zero), tb.Eq(x.I, zero)
	s0 := tb.Eq(si, zero)
	switch op {
	case token.SHL:
		r := tb.UF("shl", sortInt, x.I, si)
		e.assume(imp(xz, tb.Eq(r, zero)))
		e.assume(imp(s0, tb.Eq(r, x.I)))
		e.assume(imp(tb.And(xpos, tb.Not(s0)), tb.Le(tb.Add(x.I, x.I), r)))
		e.assume(imp(tb.And(xneg, tb.Not(s0)), tb.Le(r, tb.Add(x.I, x.I))))
		return e.cvInt(r)
	case token.SHR:
		r := tb.UF("shr", sortInt, x.I, si)
		e.assume(imp(s0, tb.Eq(r, x.I)))
		e.assume(imp(tb.Not(xneg), tb.And(tb.Le(zero, r), tb.Le(r, x.I))))
		e.assume(imp(xneg, tb.And(tb.Le(x.I, r), tb.Lt(r, zero))))
		return e.cvInt(r)
	}
	e.cvPanic(fmt.Sprintf("invalid shift %v %s", x.K, op))
	return nil
}

func (e *Exec) resourceFault(where, msg string) {
	panic(&goPanic{val: Iface{T: e.w.errorT, V: "RT:resource: " + msg}, runtime: true, msg: "resource: " + where + ": " + msg, stack: e.stackString()})
}

func (e *Exec) cvMethod(c *CV, name string, args []Value) Value {
	switch name {
	case "Kind":
		return e.tb.BV(64, uint64(c.K))
	case "String", "ExactString":
		if c.concrete() {
			if name == "String" {
				return e.cvToReal(c).String()
			}
			return e.cvToReal(c).ExactString()
		}
		return "<const>"
	}
	panic("cvMethod " + name)
}

var (
	int64Lo = new(big.Int).Neg(pow2(63))
	int64Hi = pow2(63)
	u64Hi   = pow2(64)
)

func init() {
	reg := func(name string, f func(e *Exec, a []Value) Value) {
		intrinsics["go/constant."+name] = func(e *Exec, _ *frame, _ *ssa.Function, args []Value) Value { return f(e, args) }
	}
	tok := func(e *Exec, v Value) token.Token { return token.Token(e.concInt(v)) }
	reg("MakeUnknown", func(e *Exec, a []Value) Value { return e.cvIface(e.cvUnknown()) })
	reg("MakeBool", func(e *Exec, a []Value) Value { return e.cvIface(e.cvBool(a[0].(*Term))) })
	reg("MakeString", func(e *Exec, a []Value) Value { return e.cvIface(e.cvStr(a[0])) })
	reg("MakeInt64", func(e *Exec, a []Value) Value { return e.cvIface(e.cvInt(e.tb.Bv2Int(a[0].(*Term), true))) })
	reg("MakeUint64", func(e *Exec, a []Value) Value { return e.cvIface(e.cvInt(e.tb.Bv2Int(a[0].(*Term), false))) })
	reg("MakeFloat64", func(e *Exec, a []Value) Value {
		f := float64(a[0].(FloatV))
		if math.IsInf(f, 0) || math.IsNaN(f) {
			return e.cvIface(e.cvUnknown())
		}
		r := new(big.Rat).SetFloat64(f)
		return e.cvIface(e.cvFloat(e.tb.Real(r)))
	})
	reg("MakeImag", func(e *Exec, a []Value) Value {
		x := e.argCV(a[0])
		switch x.K {
		case constant.Unknown:
			return e.cvIface(x)
		case constant.Int:
			return e.cvIface(e.cvComplex(e.zeroReal(), e.tb.ToReal(x.I)))
		case constant.Float:
			return e.cvIface(e.cvComplex(e.zeroReal(), x.Re))
		}
		e.cvPanic(fmt.Sprintf("%v not Int or Float", x.K))
		return nil
	})
	reg("MakeFromLiteral", func(e *Exec, a []Value) Value {
		lit := e.concString(a[0])
		t := tok(e, a[1])
		z := e.concretize(a[2].(*Term))
		if z != 0 {
			e.cvPanic("MakeFromLiteral called with non-zero last argument")
		}
		return e.cvIface(e.cvFromReal(constant.MakeFromLiteral(lit, t, 0)))
	})
	reg("Make", func(e *Exec, a []Value) Value {
		ifc := a[0].(Iface)
		switch x := ifc.V.(type) {
		case *Term:
			if x.sort.K == SBool {
				return e.cvIface(e.cvBool(x))
			}
			return e.cvIface(e.cvInt(e.tb.Bv2Int(x, true)))
		case string, *SymStr:
			return e.cvIface(e.cvStr(x))
		case Native:
			if x.V.CanInterface() {
				return e.cvIface(e.cvFromReal(constant.Make(x.V.Interface())))
			}
		case *symBig:
			return e.cvIface(e.cvInt(x.I))
		}
		return e.cvIface(e.cvUnknown())
	})
	reg("BoolVal", func(e *Exec, a []Value) Value {
		x := e.argCV(a[0])
		switch x.K {
		case constant.Bool:
			return x.B
		case constant.Unknown:
			return e.tb.Bool(false)
		}
		e.cvPanic(fmt.Sprintf("%v not a Bool", x.K))
		return nil
	})
	reg("StringVal", func(e *Exec, a []Value) Value {
		x := e.argCV(a[0])
		switch x.K {
		case constant.String:
			return x.S
		case constant.Unknown:
			return ""
		}
		e.cvPanic(fmt.Sprintf("%v not a String", x.K))
		return nil
	})
	// Int64Val/Uint64Val: when the value fits, the machine integer is a fresh bit-vector
	// tied to the Int by (s)bv2int; int2bv (slow in z3) is only used for concrete values.
	// When it does not fit, Go returns the low 64 bits: modelled as unconstrained.
	i2bv := func(e *Exec, x *Term, exact *Term, signed bool) *Term {
		tb := e.tb
		if x.IsConst() {
			return tb.Int2Bv(x, 64)
		}
		if x.op == "sbv2int" && x.args[0].sort.W == 64 && signed {
			return x.args[0]
		}
		if x.op == "bv2nat" && x.args[0].sort.W == 64 && !signed {
			return x.args[0]
		}
		v := tb.Var(e.freshName("i64"), sortBV(64))
		e.assume(tb.Or(tb.Not(exact), tb.Eq(tb.Bv2Int(v, signed), x)))
		return v
	}
	reg("Int64Val", func(e *Exec, a []Value) Value {
		x := e.argCV(a[0])
		tb := e.tb
		switch x.K {
		case constant.Int:
			exact := tb.And(tb.Le(tb.Int(int64Lo), x.I), tb.Lt(x.I, tb.Int(int64Hi)))
			return Tuple{i2bv(e, x.I, exact, true), exact}
		case constant.Unknown:
			return Tuple{tb.BV(64, 0), tb.Bool(false)}
		}
		e.cvPanic(fmt.Sprintf("%v not an Int", x.K))
		return nil
	})
	reg("Uint64Val", func(e *Exec, a []Value) Value {
		x := e.argCV(a[0])
		tb := e.tb
		switch x.K {
		case constant.Int:
			exact := tb.And(tb.Le(tb.Int64(0), x.I), tb.Lt(x.I, tb.Int(u64Hi)))
			return Tuple{i2bv(e, x.I, exact, false), exact}
		case constant.Unknown:
			return Tuple{tb.BV(64, 0), tb.Bool(false)}
		}
		e.cvPanic(fmt.Sprintf("%v not an Int", x.K))
		return nil
	})
	reg("Float64Val", func(e *Exec, a []Value) Value {
		x := e.argCV(a[0])
		if !x.concrete() {
			e.outside("Float64Val of symbolic constant")
		}
		f, exact := constant.Float64Val(e.cvToReal(x))
		return Tuple{FloatV(f), e.tb.Bool(exact)}
	})
	reg("Float32Val", func(e *Exec, a []Value) Value {
		x := e.argCV(a[0])
		if !x.concrete() {
			e.outside("Float32Val of symbolic constant")
		}
		f, exact := constant.Float32Val(e.cvToReal(x))
		return Tuple{FloatV(f), e.tb.Bool(exact)}
	})
	isNil := func(v Value) bool {
		ifc, ok := v.(Iface)
		return !ok || ifc.T == nil
	}
	reg("Val", func(e *Exec, a []Value) Value {
		if isNil(a[0]) {
			return Iface{}
		}
		x := e.argCV(a[0])
		tb := e.tb
		switch x.K {
		case constant.Bool:
			return Iface{T: types.Typ[types.Bool], V: x.B}
		case constant.String:
			return Iface{T: types.Typ[types.String], V: x.S}
		case constant.Int:
			fits := tb.And(tb.Le(tb.Int(int64Lo), x.I), tb.Lt(x.I, tb.Int(int64Hi)))
			if e.decide(fits) {
				return Iface{T: types.Typ[types.Int64], V: i2bv(e, x.I, tb.Bool(true), true)}
			}
			bt := e.w.ssaTypeOf(rtBigInt)
			if x.I.IsConst() {
				return Iface{T: bt, V: Native{reflect.ValueOf(new(big.Int).Set(x.I.i))}}
			}
			return Iface{T: bt, V: &symBig{I: x.I}}
		case constant.Float:
			if x.Re.IsConst() {
				v := constant.Val(e.cvToReal(x))
				rv := reflect.ValueOf(v)
				return Iface{T: e.w.ssaTypeOf(rv.Type()), V: Native{rv}}
			}
			return Iface{T: e.w.ssaTypeOf(reflect.TypeOf((*big.Rat)(nil))), V: &symBig{R: x.Re}}
		}
		return Iface{}
	})
	reg("ToInt", func(e *Exec, a []Value) Value {
		if isNil(a[0]) {
			return e.cvIface(e.cvUnknown())
		}
		return e.cvIface(e.cvToInt(e.argCV(a[0])))
	})
	reg("ToFloat", func(e *Exec, a []Value) Value {
		if isNil(a[0]) {
			return e.cvIface(e.cvUnknown())
		}
		return e.cvIface(e.cvToFloat(e.argCV(a[0])))
	})
	reg("ToComplex", func(e *Exec, a []Value) Value {
		if isNil(a[0]) {
			return e.cvIface(e.cvUnknown())
		}
		x := e.argCV(a[0])
		switch x.K {
		case constant.Int, constant.Float:
			return e.cvIface(e.cvTo(x, 4))
		case constant.Complex:
			return e.cvIface(x)
		}
		return e.cvIface(e.cvUnknown())
	})
	reg("Real", func(e *Exec, a []Value) Value {
		x := e.argCV(a[0])
		switch x.K {
		case constant.Unknown, constant.Int, constant.Float:
			return e.cvIface(x)
		case constant.Complex:
			return e.cvIface(e.cvFloat(x.Re))
		}
		e.cvPanic(fmt.Sprintf("%v not numeric", x.K))
		return nil
	})
	reg("Imag", func(e *Exec, a []Value) Value {
		x := e.argCV(a[0])
		switch x.K {
		case constant.Unknown:
			return e.cvIface(x)
		case constant.Int, constant.Float:
			return e.cvIface(e.cvInt(e.tb.Int64(0)))
		case constant.Complex:
			return e.cvIface(e.cvFloat(x.Im))
		}
		e.cvPanic(fmt.Sprintf("%v not numeric", x.K))
		return nil
	})
	reg("Sign", func(e *Exec, a []Value) Value { return e.cvSign(e.argCV(a[0])) })
	reg("BinaryOp", func(e *Exec, a []Value) Value {
		return e.cvIface(e.cvBinaryOp(e.argCV(a[0]), tok(e, a[1]), e.argCV(a[2])))
	})
	reg("UnaryOp", func(e *Exec, a []Value) Value {
		return e.cvIface(e.cvUnaryOp(tok(e, a[0]), e.argCV(a[1]), e.concretize(a[2].(*Term))))
	})
	reg("Compare", func(e *Exec, a []Value) Value {
		return e.cvCompare(e.argCV(a[0]), tok(e, a[1]), e.argCV(a[2]))
	})
	reg("Shift", func(e *Exec, a []Value) Value {
		return e.cvIface(e.cvShift(e.argCV(a[0]), tok(e, a[1]), a[2].(*Term)))
	})
	reg("BitLen", func(e *Exec, a []Value) Value {
		x := e.argCV(a[0])
		if !x.concrete() {
			e.outside("BitLen of symbolic constant")
		}
		return e.tb.BV(64, uint64(constant.BitLen(e.cvToReal(x))))
	})
	reg("Num", func(e *Exec, a []Value) Value {
		x := e.argCV(a[0])
		if !x.concrete() {
			e.outside("Num of symbolic constant")
		}
		return e.cvIface(e.cvFromReal(constant.Num(e.cvToReal(x))))
	})
	reg("Denom", func(e *Exec, a []Value) Value {
		x := e.argCV(a[0])
		if !x.concrete() {
			e.outside("Denom of symbolic constant")
		}
		return e.cvIface(e.cvFromReal(constant.Denom(e.cvToReal(x))))
	})
}

// symBig stands for a *big.Int / *big.Rat whose value is symbolic; usable only
// through constant.Make and type switches.
type symBig struct {
	I *Term
	R *Term
}
