package main

// gosym: bounded symbolic execution of goplus/gogen's real code from go/ssa, decided by z3.

import (
	"encoding/json"
	"flag"
	"fmt"
	"go/types"
	"os"
	"path/filepath"
	"reflect"
	"regexp"
	"runtime"
	"runtime/debug"
	"runtime/pprof"
	"sort"
	"strings"
	"sync"
	"time"

	"golang.org/x/tools/go/packages"
	"golang.org/x/tools/go/ssa"
	"golang.org/x/tools/go/ssa/ssautil"
)

type HarnessCfg struct {
	MaxPaths         int    `json:"maxPaths"`
	MaxPathsThorough int    `json:"maxPathsThorough"`
	MaxSecThorough   int    `json:"maxSecThorough"`
	MaxDec           int    `json:"maxDec"`
	MaxSteps         int64  `json:"maxSteps"`
	MaxSec           int    `json:"maxSec"`
	Replay           int    `json:"replay"`
	Tier             string `json:"tier"` // "" both, "thorough" only in thorough
	// ThoroughProps: when set, the harness explores its thorough space only under these properties;
	// under the other properties that list it, the thorough tier runs the quick space (a harness
	// shared by several properties would otherwise repeat hours of identical exploration)
	ThoroughProps []string `json:"thoroughProps"`
}

var (
	flagRepo     = flag.String("repo", "/repo", "repository under test")
	flagVerif    = flag.String("verif", "/verif", "verification directory")
	flagProp     = flag.String("prop", "", "property id (selects harnesses VerifH_<prop>_*)")
	flagRun      = flag.String("run", "", "regexp selecting harness names (overrides -prop)")
	flagTier     = flag.String("tier", "quick", "quick|thorough")
	flagWorkers  = flag.Int("workers", 16, "worker goroutines")
	flagSolver   = flag.String("solver", "z3", "solver binary")
	flagTimeout  = flag.Int("qtimeout", 0, "per-query timeout ms (0: by tier)")
	flagOut      = flag.String("out", "", "result JSON path")
	flagNoReplay = flag.Bool("noreplay", false, "skip native replay")
	flagVerbose  = flag.Bool("v", false, "verbose")
	flagPrefix   = flag.String("path", "", "run a single path (debug): decision list k:v,k:v")
	flagEvidence = flag.Bool("evidence", false, "write /verif/evidence/<prop>.json and print verdict lines")
	flagSeed     = flag.Int("seed", 0, "VERIF_SEED (orders exploration only)")
	flagLearn    = flag.String("learn", "", "write candidate known-finding regions (cells of concrete facts) to this file")
	flagMemProf  = flag.String("memprofile", "", "write a heap profile to this file at exit (debug)")
	flagCross    = flag.Bool("cross", false, "re-run harness verdict queries on z3-new and cvc5 (thorough)")
)

type RunOutput struct {
	Property  string           `json:"property"`
	Tier      string           `json:"tier"`
	Harnesses []*HarnessReport `json:"harnesses"`
	WallS     float64          `json:"wall_s"`
	SolverS   float64          `json:"solver_s"`
	Queries   int              `json:"queries"`
	Unknown   int              `json:"unknown"`
	LoadS     float64          `json:"load_s"`
}

type HarnessReport struct {
	Name         string                   `json:"name"`
	Paths        int                      `json:"paths"`
	Infeasible   int                      `json:"infeasible"`
	Outside      map[string]int           `json:"outside,omitempty"`
	Limit        int                      `json:"limit"`
	Incomplete   bool                     `json:"incomplete"`
	Unexplored   int                      `json:"unexplored"`
	Asserts      map[string]*AssertStat   `json:"asserts"`
	Covers       map[string]bool          `json:"covers"`
	Violations   []*Violation             `json:"violations,omitempty"`
	KnownHit     map[string]int           `json:"known_hit,omitempty"`
	Funcs        map[string]int           `json:"functions_encoded"`
	Natives      map[string]int           `json:"natives"`
	Intrinsics   map[string]int           `json:"intrinsics"`
	Samples      []map[string]interface{} `json:"samples"`
	Replayed     int                      `json:"replayed"`
	ReplayOK     int                      `json:"replay_ok"`
	ReplayBad    []string                 `json:"replay_mismatch,omitempty"`
	Steps        int64                    `json:"steps"`
	Panics       int                      `json:"panic_paths"`
	GlobalWrites map[string]int           `json:"global_writes,omitempty"`
	Resources    map[string]int           `json:"resource_faults,omitempty"`
	WallS        float64                  `json:"wall_s"`
	Bounds       map[string]int64         `json:"bounds"`
	Errors       []string                 `json:"engine_errors,omitempty"`
	Retried      []string                 `json:"retried_paths,omitempty"`
	replays      []*ReplayCase
}

func main() {
	flag.Parse()
	debug.SetGCPercent(400)
	debug.SetMemoryLimit(20 << 30) // the collector works harder near 20 GiB instead of letting the heap reach 5x live
	if *flagMemProf != "" {
		defer func() {
			if f, err := os.Create(*flagMemProf); err == nil {
				runtime.GC()
				pprof.WriteHeapProfile(f)
				f.Close()
			}
		}()
	}
	t0 := time.Now()
	re := regexp.MustCompile("^VerifH_" + *flagProp + "_")
	if b, err := os.ReadFile(filepath.Join(*flagVerif, "harness", "props.json")); err == nil && *flagProp != "" {
		var pm map[string][]string
		if err := json.Unmarshal(b, &pm); err != nil {
			fmt.Fprintln(os.Stderr, "props.json:", err)
			os.Exit(2)
		}
		if hs, ok := pm[*flagProp]; ok && len(hs) > 0 {
			re = regexp.MustCompile("^(" + strings.Join(hs, "|") + ")$")
		}
	}
	if *flagRun != "" {
		re = regexp.MustCompile(*flagRun)
	}
	w, harnesses, hfiles, err := loadWorld(*flagRepo, *flagVerif, re)
	if err != nil {
		fmt.Fprintln(os.Stderr, "load:", err)
		os.Exit(2)
	}
	loadS := time.Since(t0).Seconds()
	if len(harnesses) == 0 {
		fmt.Fprintln(os.Stderr, "no harness matches", re)
		os.Exit(2)
	}
	cfgs := map[string]*HarnessCfg{}
	if b, err := os.ReadFile(filepath.Join(*flagVerif, "harness", "config.json")); err == nil {
		if err := json.Unmarshal(b, &cfgs); err != nil {
			fmt.Fprintln(os.Stderr, "config.json:", err)
			os.Exit(2)
		}
	}
	var known []*KnownFinding
	if b, err := os.ReadFile(filepath.Join(*flagVerif, "known_findings.json")); err == nil {
		if err := json.Unmarshal(b, &known); err != nil {
			fmt.Fprintln(os.Stderr, "known_findings.json:", err)
			os.Exit(2)
		}
	}
	qto := *flagTimeout
	if qto == 0 {
		qto = 20000
		if *flagTier == "thorough" {
			qto = 120000
		}
	}
	out := &RunOutput{Property: *flagProp, Tier: *flagTier, LoadS: loadS}
	var execs []*Exec
	for i := 0; i < *flagWorkers; i++ {
		e, err := NewExec(w, i, *flagSolver, qto)
		if err != nil {
			fmt.Fprintln(os.Stderr, "solver:", err)
			os.Exit(2)
		}
		e.known = known
		e.tier = *flagTier
		e.prop = *flagProp
		execs = append(execs, e)
	}
	sort.Slice(harnesses, func(i, j int) bool { return harnesses[i].Name() < harnesses[j].Name() })
	for _, h := range harnesses {
		cfg := cfgs[h.Name()]
		if cfg == nil {
			cfg = &HarnessCfg{}
		}
		if cfg.Tier == "thorough" && *flagTier != "thorough" {
			continue
		}
		rep := runHarness(w, execs, h, cfg)
		out.Harnesses = append(out.Harnesses, rep)
	}
	if !*flagNoReplay && *flagPrefix == "" {
		replayAll(w, out, hfiles)
	}
	for _, e := range execs {
		out.SolverS += e.solver.Time.Seconds()
		out.Queries += e.solver.Queries
		out.Unknown += e.solver.Unknown
		e.solver.Close()
	}
	out.WallS = time.Since(t0).Seconds()
	b, _ := json.MarshalIndent(out, "", " ")
	if *flagOut != "" {
		os.WriteFile(*flagOut, b, 0644)
	} else if *flagVerbose {
		os.Stdout.Write(b)
	}
	summarize(out)
	if *flagLearn != "" {
		writeLearned(*flagLearn)
	}
	if *flagEvidence {
		os.Exit(writeEvidence(out, known, *flagSeed))
	}
}

func summarize(out *RunOutput) {
	for _, h := range out.Harnesses {
		nv := len(h.Violations)
		fmt.Printf("harness %s: paths=%d infeasible=%d limit=%d outside=%v incomplete=%v violations=%d known=%v replay=%d/%d wall=%.1fs\n",
			h.Name, h.Paths, h.Infeasible, h.Limit, h.Outside, h.Incomplete, nv, h.KnownHit, h.ReplayOK, h.Replayed, h.WallS)
		ids := make([]string, 0, len(h.Asserts))
		for id := range h.Asserts {
			ids = append(ids, id)
		}
		sort.Strings(ids)
		for _, id := range ids {
			s := h.Asserts[id]
			fmt.Printf("  assert %-40s proved=%d violated=%d known=%d inconclusive=%d\n", id, s.Proved, s.Violated, s.Known, s.Inconclusive)
		}
		for id, c := range h.Covers {
			if !c {
				fmt.Printf("  cover %s NOT reached (vacuity)\n", id)
			}
		}
		for _, v := range h.Violations {
			fmt.Printf("  violation %s inputs=%v confirmed=%v native=%q events=%v %s\n", v.Assert, v.Inputs, v.Confirmed, v.NativeOutcome, v.NativeEvents, firstLine(v.Msg))
		}
		for _, m := range h.ReplayBad {
			fmt.Printf("  replay mismatch: %s\n", m)
		}
		for _, m := range h.Errors {
			fmt.Printf("  engine error: %s\n", m)
		}
	}
	fmt.Printf("total: wall=%.1fs load=%.1fs solver=%.1fs queries=%d unknown=%d\n", out.WallS, out.LoadS, out.SolverS, out.Queries, out.Unknown)
}

// loadWorld loads /repo with the harness overlay and builds SSA.
func loadWorld(repo, verif string, re *regexp.Regexp) (*World, []*ssa.Function, map[string][]string, error) {
	overlay := map[string][]byte{}
	hfiles := map[string][]string{} // pkg dir (relative) -> overlay target files
	hroot := filepath.Join(verif, "harness")
	var pats []string
	seenPat := map[string]bool{}
	err := filepath.Walk(hroot, func(p string, info os.FileInfo, err error) error {
		if err != nil || info.IsDir() || !strings.HasSuffix(p, ".go") {
			return err
		}
		rel, _ := filepath.Rel(hroot, p)
		dir := filepath.Dir(rel)
		if dir == "gogen" {
			dir = "."
		} else {
			dir = strings.TrimPrefix(dir, "gogen/")
		}
		b, err := os.ReadFile(p)
		if err != nil {
			return err
		}
		target := filepath.Join(repo, dir, filepath.Base(p))
		overlay[target] = b
		hfiles[dir] = append(hfiles[dir], p)
		pat := "./" + dir
		if !seenPat[pat] {
			seenPat[pat] = true
			pats = append(pats, pat)
		}
		return nil
	})
	if err != nil {
		return nil, nil, nil, err
	}
	vpSrc, err := os.ReadFile(filepath.Join(verif, "vp", "vp.go"))
	if err != nil {
		return nil, nil, nil, err
	}
	overlay[filepath.Join(repo, "internal", "vp", "vp.go")] = vpSrc
	cfg := &packages.Config{
		Mode:       packages.LoadAllSyntax,
		Dir:        repo,
		Overlay:    overlay,
		BuildFlags: []string{"-tags=verif"},
		Env:        append(os.Environ(), "GOFLAGS=-mod=mod", "GOPROXY=off", "GOSUMDB=off", "GOTOOLCHAIN=local"),
	}
	initial, err := packages.Load(cfg, pats...)
	if err != nil {
		return nil, nil, nil, err
	}
	if n := packages.PrintErrors(initial); n > 0 {
		return nil, nil, nil, fmt.Errorf("%d package errors", n)
	}
	prog, _ := ssautil.AllPackages(initial, ssa.InstantiateGenerics)
	w := &World{prog: prog, pkgs: map[string]*ssa.Package{}, modPath: "github.com/goplus/gogen",
		sizes: types.SizesFor("gc", "amd64"), rtCache: map[reflect.Type]types.Type{}, built: map[*ssa.Package]bool{}}
	w.errorT = types.Universe.Lookup("error").Type()
	w.emptyIfc = types.NewInterfaceType(nil, nil)
	for _, p := range prog.AllPackages() {
		w.pkgs[p.Pkg.Path()] = p
		if w.ssaExecPkg(p.Pkg.Path()) {
			w.ensureBuilt(p)
		}
	}
	var hs []*ssa.Function
	for _, ip := range initial {
		sp := prog.Package(ip.Types)
		if sp == nil {
			continue
		}
		for name, m := range sp.Members {
			if f, ok := m.(*ssa.Function); ok && strings.HasPrefix(name, "VerifH_") && re.MatchString(name) {
				hs = append(hs, f)
			}
		}
	}
	return w, hs, hfiles, nil
}

func tierInt(quick, thorough int) int {
	if *flagTier == "thorough" {
		return thorough
	}
	return quick
}

func runHarness(w *World, execs []*Exec, h *ssa.Function, cfg *HarnessCfg) *HarnessReport {
	t0 := time.Now()
	res := newHarnessResult(h.Name())
	maxPaths := cfg.MaxPaths
	if *flagTier == "thorough" && cfg.MaxPathsThorough > 0 {
		maxPaths = cfg.MaxPathsThorough
	}
	if maxPaths == 0 {
		maxPaths = tierInt(20000, 400000)
	}
	maxSec := cfg.MaxSec
	if *flagTier == "thorough" && cfg.MaxSecThorough > 0 {
		maxSec = cfg.MaxSecThorough
	}
	if maxSec == 0 {
		maxSec = tierInt(150, 900)
	}
	maxDec := cfg.MaxDec
	if maxDec == 0 {
		maxDec = 400
	}
	maxSteps := cfg.MaxSteps
	if maxSteps == 0 {
		maxSteps = 20_000_000
	}
	nreplay := cfg.Replay
	if nreplay == 0 {
		nreplay = tierInt(20, 100)
	}
	q := newQueue(maxPaths, time.Now().Add(time.Duration(maxSec)*time.Second))
	if *flagPrefix != "" {
		q.push(parsePrefix(*flagPrefix))
	} else {
		q.push(nil)
	}
	var wg sync.WaitGroup
	var errMu sync.Mutex
	var engineErrs []string
	panics := 0
	resources := map[string]int{}
	nw := len(execs)
	if *flagPrefix != "" {
		nw = 1
	}
	for i := 0; i < nw; i++ {
		e := execs[i]
		e.res = res
		e.queue = q
		e.harness = h.Name()
		e.tier = *flagTier
		if len(cfg.ThoroughProps) > 0 && *flagTier == "thorough" {
			in := false
			for _, pr := range cfg.ThoroughProps {
				in = in || pr == *flagProp
			}
			if !in {
				e.tier = "quick" // this harness's thorough space is explored under its own properties only
			}
		}
		e.maxDec = maxDec
		e.maxSteps = maxSteps
		e.replayN = nreplay
		wg.Add(1)
		go func(e *Exec) {
			defer wg.Done()
			for {
				prefix, ok := q.pop()
				if !ok {
					return
				}
				outcome, msg := e.runPath(h, prefix)
				if outcome == "error" {
					// one retry: a solver process hiccup under load must not make the run inconclusive;
					// a deterministic engine error fails again and is reported
					first := msg
					outcome, msg = e.runPath(h, prefix)
					errMu.Lock()
					res.Retried = append(res.Retried, firstLine(first))
					errMu.Unlock()
				}
				res.mu.Lock()
				res.Steps += e.steps
				switch outcome {
				case "return":
					res.Paths++
				case "panic":
					res.Paths++
					panics++
				case "infeasible":
					res.Infeasible++
				case "outside":
					res.Outside[msg]++
				case "limit":
					res.Limit++
					res.Outside["limit: "+msg]++
				case "error":
					errMu.Lock()
					if len(engineErrs) < 10 {
						engineErrs = append(engineErrs, msg)
					}
					errMu.Unlock()
					res.Outside["engine-error"]++
				}
				for _, r := range e.resources {
					resources[r]++
				}
				for f, n := range e.pathFuncs {
					res.Funcs[f] += n
				}
				res.mu.Unlock()
				q.finish()
				if *flagPrefix != "" {
					return
				}
			}
		}(e)
	}
	wg.Wait()
	rem := q.remaining()
	rep := &HarnessReport{Name: h.Name(), Paths: res.Paths, Infeasible: res.Infeasible, Outside: res.Outside, Limit: res.Limit,
		Incomplete: rem > 0, Unexplored: rem, Asserts: res.Asserts, Covers: map[string]bool{}, Violations: res.Violations, KnownHit: res.KnownHit,
		Natives: res.Natives, Intrinsics: res.Intrinsics, Samples: res.Samples, Steps: res.Steps, Panics: panics,
		GlobalWrites: res.GlobalWrites, Resources: resources, WallS: time.Since(t0).Seconds(), Errors: engineErrs, Retried: res.Retried,
		Bounds: map[string]int64{"max_paths": int64(maxPaths), "max_decisions_per_path": int64(maxDec), "max_steps_per_path": maxSteps, "max_seconds": int64(maxSec), "max_call_depth": 400}}
	// keep only gogen functions in functions_encoded
	rep.Funcs = map[string]int{}
	for f, n := range res.Funcs {
		if strings.Contains(f, "goplus/gogen") && !strings.Contains(f, "internal/vp") && !strings.Contains(f, "VerifH_") {
			rep.Funcs[f] = n
		}
	}
	for id := range res.CoverSeen {
		rep.Covers[id] = res.Covers[id]
	}
	rep.replays = res.Replays
	return rep
}

func parsePrefix(s string) []Decision {
	var ds []Decision
	for _, p := range strings.Split(s, ",") {
		var k int
		var v uint64
		fmt.Sscanf(p, "%d:%d", &k, &v)
		ds = append(ds, Decision{decKind(k), v})
	}
	return ds
}

// runPath executes one path of harness h. Returns outcome and message.
func (e *Exec) runPath(h *ssa.Function, prefix []Decision) (outcome, msg string) {
	e.resetPath(prefix)
	defer func() {
		if r := recover(); r != nil {
			switch x := r.(type) {
			case pathAbort:
				outcome, msg = x.kind, x.reason
				if x.kind == "limit" {
					// unwinding assertion failed: the bound is too small for this path
					msg = x.reason
				}
			case *goPanic:
				// uncaught panic at harness top level
				outcome, msg = "panic", x.msg
				if x.runtime {
					e.doAssertSafe("no-uncaught-fault", x.msg+" @ "+x.stack)
				}
				e.finishPath("panic")
			default:
				outcome = "error"
				msg = fmt.Sprintf("%v @ %s\n%s", r, e.stackString(), trimStack(debug.Stack()))
				if *flagVerbose {
					fmt.Fprintln(os.Stderr, "engine error:", msg)
				}
			}
		}
	}()
	// package initialisation (re-run on every path: globals are mutable)
	e.runInit(h.Pkg)
	e.callFrom(nil, h, nil)
	e.finishPath("return")
	return "return", ""
}

func trimStack(b []byte) string {
	s := string(b)
	lines := strings.Split(s, "\n")
	if len(lines) > 40 {
		lines = lines[:40]
	}
	return strings.Join(lines, "\n")
}

func (e *Exec) doAssertSafe(id, msg string) {
	defer func() {
		if r := recover(); r != nil {
			if _, ok := r.(pathAbort); !ok {
				panic(r)
			}
		}
	}()
	e.doAssert(id, e.tb.Bool(false), true, msg)
}

func (e *Exec) runInit(p *ssa.Package) {
	initFn := p.Func("init")
	if initFn == nil {
		return
	}
	e.callFrom(nil, initFn, nil)
}

// finishPath records a sample and (for a few paths) a replay case.
func (e *Exec) finishPath(outcome string) {
	res := e.res
	res.mu.Lock()
	needSample := len(res.Samples) < 3
	needReplay := len(res.Replays) < e.replayN
	res.mu.Unlock()
	if !needSample && !needReplay {
		return
	}
	var ts []*Term
	for _, o := range e.obs {
		if o.Kind == "assert" {
			ts = append(ts, o.Term)
		} else {
			ts = append(ts, o.Terms...)
		}
	}
	inputs, mv, ok := e.model(nil, ts)
	if !ok {
		return
	}
	var evs []ReplayEvent
	k := 0
	for _, o := range e.obs {
		if o.Kind == "assert" {
			evs = append(evs, ReplayEvent{"assert", o.ID, fmt.Sprint(mv[k].B)})
			k++
		} else {
			n := len(o.Terms)
			evs = append(evs, ReplayEvent{"observe", o.ID, fillRender(o.Str, o.Terms, mv[k:k+n])})
			k += n
		}
	}
	rc := &ReplayCase{Harness: e.harness, Inputs: inputs, Expect: evs, Outcome: outcome}
	res.mu.Lock()
	if len(res.Samples) < 3 {
		res.Samples = append(res.Samples, map[string]interface{}{"inputs": inputs, "events": evs, "outcome": outcome, "decisions": len(e.trace), "notes": e.notes})
	}
	if len(res.Replays) < e.replayN && !e.mapArb && !e.approx {
		res.Replays = append(res.Replays, rc)
	}
	res.mu.Unlock()
}

func writeLearned(path string) {
	type entry struct {
		Harness string   `json:"harness"`
		Assert  string   `json:"assert"`
		Region  string   `json:"region"`
		Mixed   []string `json:"mixed_cells,omitempty"`
		Cells   int      `json:"cells"`
	}
	var out []entry
	keys := make([]string, 0, len(learned))
	for k := range learned {
		keys = append(keys, k)
	}
	sort.Strings(keys)
	for _, k := range keys {
		hp := strings.SplitN(k, "|", 2)
		var cells, mixed []string
		for c, n := range learned[k] {
			if n[0] > 0 {
				cells = append(cells, c)
				if n[1] > 0 {
					mixed = append(mixed, fmt.Sprintf("%s violated=%d proved=%d", c, n[0], n[1]))
				}
			}
		}
		if len(cells) == 0 {
			continue
		}
		sort.Strings(cells)
		sort.Strings(mixed)
		region := cells[0]
		if len(cells) > 1 {
			region = "(or " + strings.Join(cells, " ") + ")"
		}
		out = append(out, entry{Harness: hp[0], Assert: hp[1], Region: region, Mixed: mixed, Cells: len(cells)})
	}
	b, _ := json.MarshalIndent(out, "", " ")
	os.WriteFile(path, b, 0644)
}
