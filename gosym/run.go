package main

// Interpreter for SSA functions.

import (
	"fmt"
	"go/constant"
	"go/token"
	"go/types"
	"reflect"
	"runtime/debug"
	"strings"

	"golang.org/x/tools/go/ssa"
)

type deferred struct {
	fn   Value
	args []Value
	next *deferred
}

type frame struct {
	e         *Exec
	fn        *ssa.Function
	env       map[ssa.Value]Value
	block     *ssa.BasicBlock
	prev      *ssa.BasicBlock
	defers    *deferred
	result    Value
	panicking bool
	panicVal  *goPanic
	caller    *frame
}

func (fr *frame) get(v ssa.Value) Value {
	switch v := v.(type) {
	case *ssa.Const:
		return fr.e.constValue(v)
	case *ssa.Global:
		return fr.e.global(v)
	case *ssa.Function:
		return v
	case *ssa.Builtin:
		return v
	case nil:
		return nil
	}
	if r, ok := fr.env[v]; ok {
		return r
	}
	panic(fmt.Sprintf("get: no value for %T %v = %s in %s", v, v.Name(), v, fr.fn))
}

func (e *Exec) global(g *ssa.Global) Value {
	if p, ok := e.globals[g]; ok {
		return addrOfCell(p)
	}
	if g.Pkg != nil && !e.w.ssaExecPkg(g.Pkg.Pkg.Path()) {
		key := g.Pkg.Pkg.Path() + "." + g.Name()
		if nv, ok := nativeVars[key]; ok {
			return Native{nv}
		}
		if strings.HasPrefix(g.Name(), "init$guard") {
			p := new(Value)
			*p = e.tb.Bool(true)
			e.globals[g] = p
			return p
		}
	}
	p := new(Value)
	*p = e.zero(deref(g.Type()))
	e.globals[g] = p
	return addrOfCell(p)
}

// addrOfCell returns the address of an engine cell; a cell holding a native struct is
// addressed natively so that native methods see the same memory.
func addrOfCell(p *Value) Value {
	if n, ok := (*p).(Native); ok && (n.V.Kind() == reflect.Struct || n.V.Kind() == reflect.Array) && n.V.CanAddr() {
		return Native{n.V.Addr()}
	}
	return p
}

func (e *Exec) constValue(c *ssa.Const) Value {
	t := c.Type()
	if c.Value == nil {
		return e.zero(t)
	}
	switch u := t.Underlying().(type) {
	case *types.Basic:
		return e.constBasic(u, c.Value)
	case *types.TypeParam:
		e.outside("const of type parameter type")
	case *types.Interface:
		// untyped const converted to interface? not produced by ssa
	}
	panic(fmt.Sprintf("constValue: %v of type %v", c, t))
}

func (e *Exec) constBasic(b *types.Basic, v constant.Value) Value {
	if w, _, ok := intWidth(b); ok {
		iv := constant.ToInt(v)
		if u, exact := constant.Uint64Val(iv); exact {
			return e.tb.BV(w, u)
		}
		if s, exact := constant.Int64Val(iv); exact {
			return e.tb.BV(w, uint64(s))
		}
		panic("int const overflow")
	}
	switch {
	case b.Info()&types.IsBoolean != 0:
		return e.tb.Bool(constant.BoolVal(v))
	case b.Info()&types.IsString != 0:
		if v.Kind() == constant.Int { // string(rune) const
			r, _ := constant.Int64Val(v)
			return string(rune(r))
		}
		return constant.StringVal(v)
	case b.Info()&types.IsFloat != 0:
		f, _ := constant.Float64Val(v)
		return FloatV(f)
	case b.Info()&types.IsComplex != 0:
		re, _ := constant.Float64Val(constant.Real(v))
		im, _ := constant.Float64Val(constant.Imag(v))
		return ComplexV(complex(re, im))
	}
	panic(fmt.Sprintf("constBasic: %v", b))
}

// nativeStructType reports the reflect type if values of t live in native memory.
func (e *Exec) nativeStructType(t types.Type) (reflect.Type, bool) {
	n, ok := types.Unalias(t).(*types.Named)
	if !ok {
		return nil, false
	}
	if _, ok := n.Underlying().(*types.Struct); !ok {
		return nil, false
	}
	o := n.Obj()
	if o.Pkg() == nil {
		return nil, false
	}
	path := o.Pkg().Path()
	key := path + "." + o.Name()
	if e.w.ssaExecPkg(path) {
		if key != "go/token.FileSet" && key != "go/token.File" {
			return nil, false
		}
	}
	if key == "go/types.Checker" {
		return nil, false // engine memory: its isTerminating family runs as SSA (reference implementation for C10)
	}
	rt, ok := nativeTypes[key]
	return rt, ok
}

func (e *Exec) zero(t types.Type) Value {
	switch u := t.Underlying().(type) {
	case *types.Basic:
		if w, _, ok := intWidth(u); ok {
			return e.tb.BV(w, 0)
		}
		switch {
		case u.Info()&types.IsBoolean != 0:
			return e.tb.Bool(false)
		case u.Info()&types.IsString != 0:
			return ""
		case u.Info()&types.IsFloat != 0:
			return FloatV(0)
		case u.Info()&types.IsComplex != 0:
			return ComplexV(0)
		case u.Kind() == types.UnsafePointer:
			return (*Value)(nil)
		case u.Kind() == types.UntypedNil:
			return nil
		}
		panic(fmt.Sprintf("zero: basic %v", u))
	case *types.Pointer:
		return (*Value)(nil)
	case *types.Slice:
		return SliceV{IsNil: true}
	case *types.Map:
		return (*MapV)(nil)
	case *types.Chan:
		return (*ChanV)(nil)
	case *types.Signature:
		return nil
	case *types.Interface:
		return Iface{}
	case *types.Struct:
		if rt, ok := e.nativeStructType(t); ok {
			return Native{reflect.New(rt).Elem()}
		}
		s := make(Struct, u.NumFields())
		for i := range s {
			s[i] = e.zero(u.Field(i).Type())
		}
		return s
	case *types.Array:
		n := int(u.Len())
		a := make(Array, n)
		for i := range a {
			a[i] = e.zero(u.Elem())
		}
		return a
	case *types.Tuple:
		tp := make(Tuple, u.Len())
		for i := range tp {
			tp[i] = e.zero(u.At(i).Type())
		}
		return tp
	}
	panic(fmt.Sprintf("zero: %T %v", t, t))
}

// copyVal makes an independent copy of aggregate values (value semantics).
func copyVal(v Value) Value {
	switch x := v.(type) {
	case Struct:
		c := make(Struct, len(x))
		for i, f := range x {
			c[i] = copyVal(f)
		}
		return c
	case Array:
		c := make(Array, len(x))
		for i, f := range x {
			c[i] = copyVal(f)
		}
		return c
	case Native:
		if x.V.Kind() == reflect.Struct || x.V.Kind() == reflect.Array {
			n := reflect.New(x.V.Type()).Elem()
			n.Set(roValue(x.V))
			return Native{n}
		}
	}
	return v
}

// store writes v into *addr with value semantics; aggregates are copied in place.
func (e *Exec) store(addr Value, v Value) {
	switch a := addr.(type) {
	case *Value:
		if a == nil {
			e.fault("nil pointer dereference (store)")
		}
		if e.globalCells != nil {
			if name, ok := e.globalCells[a]; ok {
				where := name + " written in " + e.curFnName()
				e.res.mu.Lock()
				e.res.GlobalWrites[where]++
				e.res.mu.Unlock()
				e.globalWriteSeen = append(e.globalWriteSeen, where)
			}
		}
		switch x := v.(type) {
		case Struct:
			if dst, ok := (*a).(Struct); ok && len(dst) == len(x) {
				for i := range x {
					e.store(&dst[i], x[i])
				}
				return
			}
		case Array:
			if dst, ok := (*a).(Array); ok && len(dst) == len(x) {
				for i := range x {
					e.store(&dst[i], x[i])
				}
				return
			}
		case Native:
			if dst, ok := (*a).(Native); ok && dst.V.Kind() == reflect.Struct && dst.V.CanSet() && x.V.Kind() == reflect.Struct {
				rwValue(dst.V).Set(roValue(x.V))
				return
			}
		}
		*a = copyVal(v)
	case Native:
		if a.V.Kind() != reflect.Ptr {
			panic("store to non-pointer native")
		}
		if a.V.IsNil() {
			e.fault("nil pointer dereference (native store)")
		}
		dst := rwValue(a.V.Elem())
		dst.Set(e.toNative(v, dst.Type()))
	default:
		panic(fmt.Sprintf("store: bad address %T", addr))
	}
}

func (e *Exec) load(addr Value, t types.Type) Value {
	switch a := addr.(type) {
	case *Value:
		if a == nil {
			e.fault("nil pointer dereference")
		}
		return copyVal(*a)
	case Native:
		if a.V.Kind() != reflect.Ptr {
			panic("load from non-pointer native")
		}
		if a.V.IsNil() {
			e.fault("nil pointer dereference (native)")
		}
		return e.fromNative(a.V.Elem(), t)
	}
	panic(fmt.Sprintf("load: bad address %T", addr))
}

func (e *Exec) curFnName() string {
	if n := len(e.callStk); n > 0 {
		return e.callStk[n-1].String()
	}
	return "?"
}

// fault raises a Go run-time fault as an SSA-level panic.
func (e *Exec) fault(format string, args ...interface{}) {
	msg := "runtime error: " + fmt.Sprintf(format, args...)
	panic(&goPanic{val: Iface{T: e.w.errorT, V: "RT:" + msg}, runtime: true, msg: msg, stack: e.stackString()})
}

func (e *Exec) stackString() string {
	var sb strings.Builder
	for i := len(e.callStk) - 1; i >= 0 && i >= len(e.callStk)-12; i-- {
		sb.WriteString(e.callStk[i].String())
		sb.WriteString(" <- ")
	}
	return sb.String()
}

func (e *Exec) userPanic(v Value, msg string) {
	panic(&goPanic{val: v, msg: msg, stack: e.stackString()})
}

// ---------- running functions ----------

// runBlocks executes until return; on SSA-level panic it runs deferred calls
// and either resumes at the Recover block or propagates.
func (fr *frame) runBlocks() {
	defer func() {
		if fr.block == nil {
			return // normal return
		}
		r := recover()
		if r == nil {
			return
		}
		gp, ok := r.(*goPanic)
		if !ok {
			panic(r) // engine control flow or bug
		}
		fr.panicking = true
		fr.panicVal = gp
		fr.runDefers()
		// recovered
		fr.block = fr.fn.Recover
		if fr.block == nil {
			// function returns zero results after recovery (named results read by Recover block otherwise)
			fr.result = fr.e.zeroResults(fr.fn)
		}
	}()
	for {
		if fr.runBlock() {
			return
		}
	}
}

func (e *Exec) zeroResults(fn *ssa.Function) Value {
	res := fn.Signature.Results()
	switch res.Len() {
	case 0:
		return nil
	case 1:
		return e.zero(res.At(0).Type())
	}
	return e.zero(res)
}

func (fr *frame) runDefers() {
	for fr.defers != nil {
		d := fr.defers
		fr.defers = d.next
		fr.runDefer(d)
	}
	if fr.panicking {
		panic(fr.panicVal)
	}
}

func (fr *frame) runDefer(d *deferred) {
	ok := false
	defer func() {
		if !ok {
			r := recover()
			if gp, isGP := r.(*goPanic); isGP {
				// deferred call panicked: replaces current panic
				fr.panicking = true
				fr.panicVal = gp
				return
			}
			panic(r)
		}
	}()
	fr.e.callFrom(fr, d.fn, d.args)
	ok = true
}

// runBlock executes the current block; returns true when the function returned.
func (fr *frame) runBlock() bool {
	e := fr.e
	b := fr.block
	// phis
	i := 0
	if len(b.Instrs) > 0 {
		if _, ok := b.Instrs[0].(*ssa.Phi); ok {
			var vals []Value
			var phis []*ssa.Phi
			for ; i < len(b.Instrs); i++ {
				phi, ok := b.Instrs[i].(*ssa.Phi)
				if !ok {
					break
				}
				for pi, pred := range b.Preds {
					if pred == fr.prev {
						vals = append(vals, fr.get(phi.Edges[pi]))
						phis = append(phis, phi)
						break
					}
				}
			}
			for k, phi := range phis {
				fr.env[phi] = vals[k]
			}
		}
	}
	for ; i < len(b.Instrs); i++ {
		e.steps++
		if e.steps > e.maxSteps {
			e.abort("limit", "step bound %d exceeded", e.maxSteps)
		}
		switch ins := b.Instrs[i].(type) {
		case *ssa.If:
			c := fr.get(ins.Cond).(*Term)
			succ := 1
			if e.decide(c) {
				succ = 0
			}
			fr.prev, fr.block = b, b.Succs[succ]
			return false
		case *ssa.Jump:
			fr.prev, fr.block = b, b.Succs[0]
			return false
		case *ssa.Return:
			switch len(ins.Results) {
			case 0:
			case 1:
				fr.result = fr.get(ins.Results[0])
			default:
				res := make(Tuple, len(ins.Results))
				for k, r := range ins.Results {
					res[k] = fr.get(r)
				}
				fr.result = res
			}
			fr.block = nil
			return true
		case *ssa.Panic:
			v := fr.get(ins.X)
			e.userPanic(v, e.panicString(v))
		default:
			fr.visit(ins)
		}
	}
	panic("block fell through: " + fr.fn.String())
}

func (e *Exec) panicString(v Value) string {
	if ifc, ok := v.(Iface); ok {
		switch x := ifc.V.(type) {
		case string:
			return x
		case Native:
			if x.V.CanInterface() {
				return fmt.Sprint(x.V.Interface())
			}
		}
		if ifc.T != nil {
			return "panic(" + ifc.T.String() + ")"
		}
	}
	return "panic"
}

func (fr *frame) visit(instr ssa.Instruction) {
	e := fr.e
	switch ins := instr.(type) {
	case *ssa.DebugRef:
	case *ssa.UnOp:
		fr.env[ins] = e.unop(ins, fr.get(ins.X))
	case *ssa.BinOp:
		fr.env[ins] = e.binop(ins.Op, ins.X.Type(), fr.get(ins.X), fr.get(ins.Y))
	case *ssa.Call:
		fn, args := fr.prepareCall(&ins.Call)
		fr.env[ins] = e.callFrom(fr, fn, args)
	case *ssa.ChangeInterface:
		fr.env[ins] = fr.get(ins.X)
	case *ssa.ChangeType:
		fr.env[ins] = fr.get(ins.X)
	case *ssa.Convert:
		fr.env[ins] = e.conv(ins.Type(), ins.X.Type(), fr.get(ins.X))
	case *ssa.MultiConvert:
		fr.env[ins] = e.conv(ins.Type(), ins.X.Type(), fr.get(ins.X))
	case *ssa.MakeInterface:
		fr.env[ins] = e.makeIface(ins.X.Type(), fr.get(ins.X))
	case *ssa.Extract:
		fr.env[ins] = fr.get(ins.Tuple).(Tuple)[ins.Index]
	case *ssa.Slice:
		fr.env[ins] = e.slice(ins, fr.get(ins.X), fr.get(ins.Low), fr.get(ins.High), fr.get(ins.Max))
	case *ssa.RunDefers:
		fr.runDefers()
	case *ssa.Store:
		e.store(fr.get(ins.Addr), fr.get(ins.Val))
	case *ssa.Defer:
		fn, args := fr.prepareCall(&ins.Call)
		fr.defers = &deferred{fn: fn, args: args, next: fr.defers}
	case *ssa.Alloc:
		t := deref(ins.Type())
		if rt, ok := e.nativeStructType(t); ok {
			fr.env[ins] = Native{reflect.New(rt)}
			return
		}
		var addr *Value
		if ins.Heap {
			addr = new(Value)
			fr.env[ins] = addr
		} else {
			addr = fr.env[ins].(*Value)
		}
		*addr = e.zero(t)
	case *ssa.MakeSlice:
		ln := int(e.concInt(fr.get(ins.Len)))
		cp := int(e.concInt(fr.get(ins.Cap)))
		if ln < 0 || cp < ln || cp > 1<<20 {
			e.fault("makeslice: len out of range")
		}
		elt := ins.Type().Underlying().(*types.Slice).Elem()
		data := make([]Value, cp)
		for i := range data {
			data[i] = e.zero(elt)
		}
		fr.env[ins] = SliceV{Data: data[:ln]}
	case *ssa.MakeMap:
		fr.env[ins] = newMap(ins.Type().Underlying().(*types.Map).Key())
	case *ssa.Range:
		fr.env[ins] = e.rangeIter(fr.get(ins.X), ins.X.Type())
	case *ssa.Next:
		fr.env[ins] = fr.get(ins.Iter).(iterator).next(e)
	case *ssa.FieldAddr:
		fr.env[ins] = e.fieldAddr(fr.get(ins.X), ins.Field, deref(ins.X.Type()))
	case *ssa.Field:
		x := fr.get(ins.X)
		switch s := x.(type) {
		case Struct:
			fr.env[ins] = s[ins.Field]
		case Native:
			fr.env[ins] = e.fromNative(roValue(s.V.Field(ins.Field)), ins.Type())
		default:
			panic(fmt.Sprintf("Field on %T", x))
		}
	case *ssa.IndexAddr:
		fr.env[ins] = e.indexAddr(fr.get(ins.X), fr.get(ins.Index).(*Term), ins)
	case *ssa.Index:
		fr.env[ins] = e.index(fr.get(ins.X), fr.get(ins.Index).(*Term), ins)
	case *ssa.Lookup:
		fr.env[ins] = e.lookup(ins, fr.get(ins.X), fr.get(ins.Index))
	case *ssa.MapUpdate:
		m := fr.get(ins.Map)
		e.mapUpdate(m, fr.get(ins.Key), fr.get(ins.Value))
	case *ssa.TypeAssert:
		fr.env[ins] = e.typeAssert(ins, fr.get(ins.X).(Iface))
	case *ssa.MakeClosure:
		bind := make([]Value, len(ins.Bindings))
		for i, b := range ins.Bindings {
			bind[i] = fr.get(b)
		}
		fr.env[ins] = &Closure{Fn: ins.Fn.(*ssa.Function), Env: bind}
	case *ssa.SliceToArrayPointer:
		e.outside("SliceToArrayPointer")
	case *ssa.Send, *ssa.Go, *ssa.Select, *ssa.MakeChan:
		e.outside("concurrency instruction %T in %s", instr, fr.fn)
	default:
		panic(fmt.Sprintf("unexpected instruction %T", instr))
	}
}

func (fr *frame) prepareCall(call *ssa.CallCommon) (Value, []Value) {
	e := fr.e
	v := fr.get(call.Value)
	var fn Value
	var args []Value
	if call.Method == nil {
		fn = v
	} else {
		recv := v.(Iface)
		if recv.T == nil {
			e.fault("invalid memory address or nil pointer dereference (method %s on nil interface)", call.Method.Name())
		}
		fn = e.lookupMethod(recv, call.Method)
		args = append(args, recv.V)
	}
	for _, a := range call.Args {
		args = append(args, fr.get(a))
	}
	return fn, args
}

// methodRef is a method on a value whose dynamic type has no SSA function (natives, CV).
type methodRef struct {
	name string
	sig  *types.Signature
}

func (e *Exec) lookupMethod(recv Iface, m *types.Func) Value {
	switch recv.V.(type) {
	case *CV:
		return &methodRef{name: m.Name(), sig: m.Type().(*types.Signature)}
	}
	if _, isNat := recv.V.(Native); isNat {
		return &methodRef{name: m.Name(), sig: m.Type().(*types.Signature)}
	}
	if s, ok := recv.V.(string); ok && strings.HasPrefix(s, "RT:") && m.Name() == "Error" {
		return &methodRef{name: "Error", sig: m.Type().(*types.Signature)}
	}
	f := e.w.prog.LookupMethod(recv.T, m.Pkg(), m.Name())
	if f == nil {
		panic(fmt.Sprintf("method set of %v lacks %s", recv.T, m.Name()))
	}
	return f
}

func (e *Exec) makeIface(t types.Type, v Value) Value {
	if _, ok := t.Underlying().(*types.Interface); ok {
		return v
	}
	return Iface{T: t, V: v}
}

func (e *Exec) fieldAddr(x Value, field int, st types.Type) Value {
	switch p := x.(type) {
	case *Value:
		if p == nil {
			e.fault("invalid memory address or nil pointer dereference (field %d of %v)", field, st)
		}
		s, ok := (*p).(Struct)
		if !ok {
			if n, isNat := (*p).(Native); isNat && n.V.Kind() == reflect.Struct {
				return Native{rwValue(n.V.Field(field)).Addr()}
			}
			panic(fmt.Sprintf("FieldAddr on %T", *p))
		}
		return addrOfCell(&s[field])
	case Native:
		if p.V.Kind() != reflect.Ptr {
			panic("FieldAddr on non-pointer native")
		}
		if p.V.IsNil() {
			e.fault("invalid memory address or nil pointer dereference (native field)")
		}
		return Native{rwValue(p.V.Elem().Field(field)).Addr()}
	}
	panic(fmt.Sprintf("FieldAddr on %T", x))
}

func (e *Exec) boundsIndex(idx *Term, n int, what string) int {
	w := idx.sort.W
	if idx.IsConst() {
		i := idx.sval()
		if i < 0 || i >= int64(n) {
			e.fault("index out of range [%d] with length %d (%s)", i, n, what)
		}
		return int(i)
	}
	inb := e.tb.And(e.tb.bvCmp("bvsle", e.tb.BV(w, 0), idx), e.tb.bvCmp("bvslt", idx, e.tb.BV(w, uint64(n))))
	if !e.decide(inb) {
		e.fault("index out of range (symbolic) with length %d (%s)", n, what)
	}
	return int(e.concInt(idx))
}

func (e *Exec) indexAddr(x Value, idx *Term, ins *ssa.IndexAddr) Value {
	switch a := x.(type) {
	case SliceV:
		i := e.boundsIndex(idx, len(a.Data), "slice")
		return addrOfCell(&a.Data[i])
	case *Value:
		if a == nil {
			e.fault("nil pointer dereference (array index)")
		}
		arr := (*a).(Array)
		i := e.boundsIndex(idx, len(arr), "array")
		return addrOfCell(&arr[i])
	case Native:
		v := a.V
		if v.Kind() == reflect.Ptr {
			v = v.Elem()
		}
		i := e.boundsIndex(idx, v.Len(), "native")
		return Native{rwValue(v.Index(i)).Addr()}
	}
	panic(fmt.Sprintf("IndexAddr on %T", x))
}

func (e *Exec) index(x Value, idx *Term, ins *ssa.Index) Value {
	switch a := x.(type) {
	case Array:
		i := e.boundsIndex(idx, len(a), "array")
		return a[i]
	case string:
		i := e.boundsIndex(idx, len(a), "string")
		return e.tb.BV(8, uint64(a[i]))
	case *SymStr:
		s := e.concString(a)
		i := e.boundsIndex(idx, len(s), "string")
		return e.tb.BV(8, uint64(s[i]))
	case Native:
		i := e.boundsIndex(idx, a.V.Len(), "native")
		return e.fromNative(a.V.Index(i), ins.Type())
	}
	panic(fmt.Sprintf("Index on %T", x))
}

func (e *Exec) slice(ins *ssa.Slice, x, lo, hi, max Value) Value {
	get := func(v Value, def int) int {
		if v == nil {
			return def
		}
		return int(e.concInt(v))
	}
	switch a := x.(type) {
	case string, *SymStr:
		s := e.concString(a)
		l, h := get(lo, 0), get(hi, len(s))
		if l < 0 || h > len(s) || l > h {
			e.fault("slice bounds out of range [%d:%d] with length %d", l, h, len(s))
		}
		return s[l:h]
	case SliceV:
		c := cap(a.Data)
		l, h := get(lo, 0), get(hi, len(a.Data))
		m := get(max, c)
		if l < 0 || h < l || m < h || m > c {
			e.fault("slice bounds out of range [%d:%d:%d] with capacity %d", l, h, m, c)
		}
		if a.IsNil && l == 0 && h == 0 {
			return SliceV{IsNil: true}
		}
		return SliceV{Data: a.Data[l:h:m]}
	case *Value:
		if a == nil {
			e.fault("nil pointer dereference (slice of array pointer)")
		}
		arr := (*a).(Array)
		c := len(arr)
		l, h := get(lo, 0), get(hi, c)
		m := get(max, c)
		if l < 0 || h < l || m < h || m > c {
			e.fault("slice bounds out of range")
		}
		return SliceV{Data: []Value(arr)[l:h:m]}
	}
	panic(fmt.Sprintf("slice of %T", x))
}

func (e *Exec) typeAssert(ins *ssa.TypeAssert, x Iface) Value {
	ok := false
	var v Value
	at := ins.AssertedType
	if x.T != nil {
		if it, isI := at.Underlying().(*types.Interface); isI {
			ok = e.implements(x, it)
			v = x
		} else {
			ok = e.typeIdentical(x.T, at)
			v = x.V
		}
	}
	if ins.CommaOk {
		if !ok {
			v = e.zero(at)
		}
		return Tuple{v, e.tb.Bool(ok)}
	}
	if !ok {
		if x.T == nil {
			e.fault("interface conversion: interface is nil, not %v", at)
		}
		e.fault("interface conversion: interface is %v, not %v", x.T, at)
	}
	return v
}

func (e *Exec) typeIdentical(a, b types.Type) bool {
	if a == b {
		return true
	}
	if a == cvFakeType || b == cvFakeType {
		return false
	}
	return types.Identical(a, b)
}

func (e *Exec) implements(x Iface, it *types.Interface) bool {
	if it.NumMethods() == 0 {
		return true
	}
	if x.T == cvFakeType {
		// constant.Value implementations: Kind, String, ExactString
		for i := 0; i < it.NumMethods(); i++ {
			switch it.Method(i).Name() {
			case "Kind", "String", "ExactString":
			default:
				return false
			}
		}
		return true
	}
	return types.Implements(x.T, it)
}

var _ = token.ADD
var _ = debug.Stack
