package main

// Bridge for gogen's linkname use of go/types.(*Checker).infer: the unifier itself
// runs natively (it is go/types, the arbiter), the adapter around it runs as SSA.

import (
	"fmt"
	"time"
	"go/ast"
	"go/constant"
	"go/token"
	"go/types"
	"reflect"
	_ "unsafe"

	"golang.org/x/tools/go/ssa"
)

type nOperand struct {
	mode byte
	expr ast.Expr
	typ  types.Type
	val  constant.Value
	id   int
}

type nPositioner interface {
	Pos() token.Pos
}

type nErrorDesc struct {
	posn nPositioner
	msg  string
}

type nError_ struct {
	check *types.Checker
	desc  []nErrorDesc
	code  int
	soft  bool
}

type atNoPos struct{}

func (atNoPos) Pos() token.Pos { return token.NoPos }

//go:linkname types_checker_infer go/types.(*Checker).infer
func types_checker_infer(check *types.Checker, posn nPositioner, tparams []*types.TypeParam, targs []types.Type, params *types.Tuple, args []*nOperand, reverse bool, err *nError_) (inferred []types.Type)

const inferWatchdog = 60 * time.Second

func init() {
	intrinsics["github.com/goplus/gogen.checker_infer"] = func(e *Exec, _ *frame, fn *ssa.Function, a []Value) Value {
		check := e.toNative(a[0], reflect.TypeOf((*types.Checker)(nil))).Interface().(*types.Checker)
		tparams := e.toNative(a[2], reflect.TypeOf([]*types.TypeParam(nil))).Interface().([]*types.TypeParam)
		targs := e.toNative(a[3], reflect.TypeOf([]types.Type(nil))).Interface().([]types.Type)
		params := e.toNative(a[4], reflect.TypeOf((*types.Tuple)(nil))).Interface().(*types.Tuple)
		var args []*nOperand
		if s, ok := a[5].(SliceV); ok {
			for _, x := range s.Data {
				st := (*x.(*Value)).(Struct)
				op := &nOperand{mode: byte(e.concretize(st[0].(*Term))), expr: &ast.Ident{Name: "x"}}
				tv := e.toNative(st[2], rtTypesType)
				if !tv.IsNil() {
					op.typ = tv.Interface().(types.Type)
				}
				if ifc, ok := st[3].(Iface); ok && ifc.T != nil {
					if cv, ok := ifc.V.(*CV); ok && cv.concrete() {
						op.val = e.cvToReal(cv)
					}
				}
				args = append(args, op)
			}
		}
		reverse := e.concBool(a[6])
		nerr := &nError_{check: check, code: 138}
		var res []types.Type
		// The unifier runs natively and cannot be interrupted. A watchdog turns a call that does not
		// return into a fault of this path (non-termination is a C17 violation; natively the replay
		// child is killed by its timeout, which is the reproduction) and stops the exploration: the
		// runaway goroutine keeps allocating for as long as this process lives.
		type inferOut struct {
			res []types.Type
			pv  interface{}
		}
		ch := make(chan inferOut, 1)
		go func() {
			var o inferOut
			defer func() {
				o.pv = recover()
				ch <- o
			}()
			o.res = types_checker_infer(check, atNoPos{}, tparams, targs, params, args, reverse, nerr)
		}()
		var out inferOut
		select {
		case out = <-ch:
		case <-time.After(inferWatchdog):
			if e.queue != nil {
				e.queue.stopNow()
			}
			e.fault("resource: go/types type inference did not return within %v (non-terminating unification, unbounded memory)", inferWatchdog)
		}
		res = out.res
		if r := out.pv; r != nil {
			if _, ok := r.(pathAbort); ok {
				panic(r)
			}
			if _, ok := r.(*goPanic); ok {
				panic(r)
			}
			if _, isRT := r.(interface{ RuntimeError() }); isRT {
				panic(&goPanic{val: Iface{T: e.w.errorT, V: "RT:" + fmt.Sprint(r)}, runtime: true, msg: "runtime error inside go/types infer: " + fmt.Sprint(r), stack: e.stackString()})
			}
			e.userPanic(Iface{T: types.Typ[types.String], V: fmt.Sprint(r)}, "go/types infer panic: "+fmt.Sprint(r))
		}
		e.res.noteNative("go/types.(*Checker).infer")
		// write errors back into the engine's error_ struct
		if ep, ok := a[7].(*Value); ok && ep != nil {
			es := (*ep).(Struct)
			var descs []Value
			posT := e.w.ssaTypeOf(reflect.TypeOf(atNoPos{}))
			for _, d := range nerr.desc {
				descs = append(descs, Struct{Iface{T: posT, V: Native{reflect.ValueOf(atNoPos{})}}, d.msg})
			}
			if len(descs) > 0 {
				es[1] = SliceV{Data: descs}
			}
		}
		return e.fromNative(reflect.ValueOf(res), fn.Signature.Results().At(0).Type())
	}
}
