package main

// Exec: per-worker symbolic executor state, path management, decisions.

import (
	"fmt"
	"go/types"
	"math/big"
	"os"
	"reflect"
	"sort"
	"strings"
	"sync"
	"time"

	"golang.org/x/tools/go/ssa"
)

// ---------- shared world ----------

type World struct {
	prog     *ssa.Program
	pkgs     map[string]*ssa.Package
	modPath  string
	sizes    types.Sizes
	mu       sync.Mutex
	rtCache  map[reflect.Type]types.Type
	built    map[*ssa.Package]bool
	errorT   types.Type
	emptyIfc *types.Interface
}

func (w *World) ssaExecPkg(path string) bool {
	if strings.HasPrefix(path, w.modPath) {
		return true
	}
	switch path {
	case "go/ast", "go/token", "slices", "sort", "maps", "cmp", "iter":
		return true
	}
	return false
}

func (w *World) ensureBuilt(p *ssa.Package) {
	if p == nil {
		return
	}
	w.mu.Lock()
	if !w.built[p] {
		p.Build()
		w.built[p] = true
	}
	w.mu.Unlock()
}

// ---------- decisions ----------

type decKind uint8

const (
	dBranch decKind = iota
	dChoose
	dConcEq
	dConcNe
)

type Decision struct {
	K decKind
	V uint64
}

type pathAbort struct {
	kind   string // "infeasible", "outside", "limit", "done"
	reason string
}

// goPanic is an SSA-level panic travelling through interpreter frames.
type goPanic struct {
	val     Value // Iface
	runtime bool  // run-time fault raised by the engine
	msg     string
	stack   string
}

type InputVar struct {
	Name string
	Term *Term
	Kind string // "int","uint","bool","cint","creal","choose","tok",...
}

type Observation struct {
	ID    string
	Kind  string // "assert","observe"
	Term  *Term  // assert condition
	Str   string // render pattern
	Terms []*Term
}

type Violation struct {
	Harness string
	Assert  string
	Inputs  map[string]string
	Trace   []Decision
	Msg     string
	Known   string // id of matching known finding, "" if new
	Fault   bool
	Replayed      bool
	Confirmed     bool
	NativeOutcome string
	OracleMismatch string
	NativeEvents  []ReplayEvent
}

type AssertStat struct {
	Proved, Violated, Known, Inconclusive int
}

type HarnessResult struct {
	Name          string
	Paths         int
	Infeasible    int
	Outside       map[string]int
	Limit         int
	Asserts       map[string]*AssertStat
	Covers        map[string]bool
	CoverSeen     map[string]bool
	Violations    []*Violation
	Retried       []string // engine errors that did not recur when the path was re-run
	KnownHit      map[string]int
	Funcs         map[string]int
	Natives       map[string]int
	Intrinsics    map[string]int
	Samples       []map[string]interface{}
	Replays       []*ReplayCase
	Incomplete    bool
	Steps         int64
	Faults        int
	GlobalWrites  map[string]int
	UnwindFail    int
	mu            sync.Mutex
}

func newHarnessResult(name string) *HarnessResult {
	return &HarnessResult{Name: name, Outside: map[string]int{}, Asserts: map[string]*AssertStat{},
		Covers: map[string]bool{}, CoverSeen: map[string]bool{}, KnownHit: map[string]int{},
		Funcs: map[string]int{}, Natives: map[string]int{}, Intrinsics: map[string]int{}, GlobalWrites: map[string]int{}}
}

type ReplayCase struct {
	Harness string            `json:"harness"`
	Inputs  map[string]string `json:"inputs"`
	Expect  []ReplayEvent     `json:"expect"`
	Outcome string            `json:"outcome"` // "return", "panic"
}

type ReplayEvent struct {
	Kind string `json:"kind"`
	ID   string `json:"id"`
	Val  string `json:"val"`
}

// ---------- Exec ----------

type Exec struct {
	w      *World
	tb     *TermBuilder
	solver *Solver
	id     int

	// per-path state
	prefix   []Decision
	trace    []Decision
	pos      int
	pc       []*Term
	inputs   []*InputVar
	inputIdx map[string]*InputVar
	obs      []Observation
	globals  map[*ssa.Global]*Value
	inexact  bool
	approx   bool // an uninterpreted approximation was used on this path: models may be spurious
	steps    int64
	ndec     int
	depth    int
	mapArb   bool
	fresh    int
	proxies  map[*Value]*proxyType
	nativeOf map[*Value]reflect.Value
	initDone map[*ssa.Package]bool
	curFn    *ssa.Function
	callStk  []*ssa.Function
	globalCells map[*Value]string
	globalMaps  map[*MapV]string // maps reachable from package-level variables (C18 monitor: insert/delete)
	pathFuncs map[string]int
	lastPanic *goPanic
	notes     []string
	resources []string

	// configuration
	maxSteps   int64
	maxDec     int
	maxDepth   int
	depthFault int // vp.DepthIsFault: exceeding this call depth is a run-time fault (stack overflow), not a bound
	known      []*KnownFinding
	res        *HarnessResult
	queue      *WorkQueue
	harness    string
	replayN    int
	tier       string
	trackGlobals bool
	prop       string
	syncMaps   map[string]*MapV
	symAddrs   bool
	globalWriteSeen []string
	stubs      map[string]Value
	stubsPre   map[string]Value
	ptrInts    map[string]*Term
	facts      map[string]*Term
	factOrder  []string
}

type WorkQueue struct {
	mu      sync.Mutex
	cond    *sync.Cond
	items   [][]Decision
	active  int
	closed  bool
	pushed  int
	maxPath int
	done    int
	deadline time.Time
}

func newQueue(maxPath int, deadline time.Time) *WorkQueue {
	q := &WorkQueue{maxPath: maxPath, deadline: deadline}
	q.cond = sync.NewCond(&q.mu)
	return q
}

// stopNow makes pop hand out no further paths (used when a native callee ran away).
func (q *WorkQueue) stopNow() {
	q.mu.Lock()
	q.deadline = time.Now().Add(-time.Second)
	q.mu.Unlock()
	q.cond.Broadcast()
}

func (q *WorkQueue) push(p []Decision) {
	q.mu.Lock()
	q.items = append(q.items, p)
	q.pushed++
	q.mu.Unlock()
	q.cond.Signal()
}

// pop blocks until an item is available or all workers are idle.
func (q *WorkQueue) pop() ([]Decision, bool) {
	q.mu.Lock()
	defer q.mu.Unlock()
	for {
		if len(q.items) > 0 {
			if q.done >= q.maxPath || time.Now().After(q.deadline) {
				return nil, false
			}
			n := len(q.items) - 1
			it := q.items[n]
			q.items = q.items[:n]
			q.active++
			return it, true
		}
		if q.active == 0 {
			q.cond.Broadcast()
			return nil, false
		}
		q.cond.Wait()
	}
}

func (q *WorkQueue) finish() {
	q.mu.Lock()
	q.active--
	q.done++
	if q.active == 0 && len(q.items) == 0 {
		q.cond.Broadcast()
	}
	q.mu.Unlock()
}

func (q *WorkQueue) remaining() int {
	q.mu.Lock()
	defer q.mu.Unlock()
	return len(q.items)
}

func NewExec(w *World, id int, solverName string, timeoutMs int) (*Exec, error) {
	s, err := NewSolver(solverName, timeoutMs)
	if err != nil {
		return nil, err
	}
	e := &Exec{w: w, tb: NewTermBuilder(), solver: s, id: id, maxSteps: 20_000_000, maxDec: 400, maxDepth: 400}
	if os.Getenv("GOSYM_SLOW") != "" {
		s.onSlow = func(d time.Duration, r string) {
			in := []string{}
			for _, iv := range e.inputs {
				if iv.Term.IsConst() {
					in = append(in, fmt.Sprintf("%s=%d", iv.Name, iv.Term.u))
				}
			}
			fmt.Fprintf(os.Stderr, "slow query %.1fs %s in %s inputs %v\n", d.Seconds(), r, e.curFnName(), in)
		}
	}
	return e, nil
}

func (e *Exec) abort(kind, format string, args ...interface{}) {
	panic(pathAbort{kind, fmt.Sprintf(format, args...)})
}

func (e *Exec) outside(format string, args ...interface{}) {
	panic(pathAbort{"outside", fmt.Sprintf(format, args...)})
}

// resetPath prepares the executor for a fresh run with the given decision prefix.
func (e *Exec) resetPath(prefix []Decision) {
	e.solver.PopTo(0)
	e.solver.Push()
	e.tb = NewTermBuilder() // fresh ids keep solver definitions consistent after pop
	e.solver.defined = map[int]bool{}
	e.solver.ufs = map[string]bool{}
	e.solver.journal = [][]int{nil, nil}
	e.solver.ujourn = [][]string{nil, nil}
	e.prefix = prefix
	e.depthFault = 0
	e.trace = nil
	e.pos = 0
	e.pc = nil
	e.inputs = nil
	e.inputIdx = map[string]*InputVar{}
	e.obs = nil
	e.globals = map[*ssa.Global]*Value{}
	e.inexact = false
	e.approx = false
	e.steps = 0
	e.ndec = 0
	e.depth = 0
	e.mapArb = false
	e.fresh = 0
	e.proxies = map[*Value]*proxyType{}
	e.nativeOf = map[*Value]reflect.Value{}
	e.initDone = map[*ssa.Package]bool{}
	e.callStk = e.callStk[:0]
	e.globalCells = nil
	e.globalMaps = nil
	e.pathFuncs = map[string]int{}
	e.lastPanic = nil
	e.syncMaps = map[string]*MapV{}
	e.symAddrs = false
	e.globalWriteSeen = nil
	e.stubs = map[string]Value{}
	e.stubsPre = map[string]Value{}
	e.ptrInts = map[string]*Term{}
	e.facts = map[string]*Term{}
	e.factOrder = nil
	e.notes = nil
	e.resources = nil
}

func (e *Exec) assume(c *Term) {
	if v, ok := c.boolVal(); ok {
		if !v {
			e.abort("infeasible", "assume false")
		}
		return
	}
	e.pc = append(e.pc, c)
	e.solver.Assert(c)
}

func (e *Exec) feasible(extra ...*Term) SatResult {
	r := e.solver.CheckWith(extra...)
	if r == UnknownRes {
		e.inexact = true
	}
	return r
}

func (e *Exec) record(d Decision) {
	e.trace = append(e.trace, d)
	if len(e.trace) > e.maxDec {
		e.abort("limit", "decision bound %d exceeded (unwinding assertion)", e.maxDec)
	}
}

func (e *Exec) fork(alt Decision) {
	p := make([]Decision, len(e.trace)+1)
	copy(p, e.trace)
	p[len(e.trace)] = alt
	e.queue.push(p)
}

// decide resolves a symbolic branch condition on this path.
func (e *Exec) decide(c *Term) bool {
	if v, ok := c.boolVal(); ok {
		return v
	}
	if e.pos < len(e.prefix) {
		d := e.prefix[e.pos]
		e.pos++
		if d.K != dBranch {
			panic(fmt.Sprintf("replay divergence: expected branch, prefix has kind %d at %d", d.K, e.pos-1))
		}
		e.record(d)
		if d.V == 1 {
			e.assume(c)
			return true
		}
		e.assume(e.tb.Not(c))
		return false
	}
	e.pos++
	if traceDecide {
		fmt.Fprintf(os.Stderr, "decide #%d in %s: %s\n", len(e.trace), e.curFnName(), truncStr(c.String(), 160))
	}
	nc := e.tb.Not(c)
	rT := e.feasible(c)
	if rT == Unsat {
		e.record(Decision{dBranch, 0})
		e.assume(nc)
		return false
	}
	rF := e.feasible(nc)
	if rF == Unsat {
		e.record(Decision{dBranch, 1})
		e.assume(c)
		return true
	}
	e.fork(Decision{dBranch, 0})
	e.record(Decision{dBranch, 1})
	e.assume(c)
	return true
}

// choose forks n ways without solver involvement.
func (e *Exec) choose(n int) int {
	if n <= 0 {
		e.abort("infeasible", "choose over empty set")
	}
	if n == 1 {
		return 0
	}
	if e.pos < len(e.prefix) {
		d := e.prefix[e.pos]
		e.pos++
		if d.K != dChoose {
			panic("replay divergence: expected choose")
		}
		e.record(d)
		return int(d.V)
	}
	e.pos++
	for i := n - 1; i >= 1; i-- {
		e.fork(Decision{dChoose, uint64(i)})
	}
	e.record(Decision{dChoose, 0})
	return 0
}

// concretize returns a concrete value for a BV/Bool term, forking over its feasible values.
func (e *Exec) concretize(t *Term) uint64 {
	if t.IsConst() {
		return t.u
	}
	if t.sort.K == SBool {
		if e.decide(t) {
			return 1
		}
		return 0
	}
	if t.sort.K != SBV {
		e.outside("cannot concretize %v term", t.sort)
	}
	for iter := 0; ; iter++ {
		if iter > 300 {
			e.outside("concretize: more than 300 values for %s", t)
		}
		if e.pos < len(e.prefix) {
			d := e.prefix[e.pos]
			e.pos++
			e.record(d)
			v := e.tb.BV(t.sort.W, d.V)
			switch d.K {
			case dConcEq:
				e.assume(e.tb.Eq(t, v))
				return d.V
			case dConcNe:
				e.assume(e.tb.Not(e.tb.Eq(t, v)))
				continue
			default:
				panic("replay divergence: expected concretize")
			}
		}
		e.pos++
		// find a feasible value
		e.solver.Push()
		r := e.solver.Check()
		if r != Sat {
			e.solver.Pop()
			if r == Unsat {
				e.abort("infeasible", "concretize on infeasible path")
			}
			e.outside("concretize: solver unknown")
		}
		mv, err := e.solver.GetValues([]*Term{t})
		e.solver.Pop()
		if err != nil {
			e.outside("concretize: %v", err)
		}
		val := mv[0].U
		v := e.tb.BV(t.sort.W, val)
		ne := e.tb.Not(e.tb.Eq(t, v))
		if e.feasible(ne) != Unsat {
			e.fork(Decision{dConcNe, val})
		}
		e.record(Decision{dConcEq, val})
		e.assume(e.tb.Eq(t, v))
		return val
	}
}

func (e *Exec) concInt(v Value) int64 {
	t := v.(*Term)
	u := e.concretize(t)
	return e.tb.BV(t.sort.W, u).sval()
}

func (e *Exec) concBool(v Value) bool {
	return e.concretize(v.(*Term)) != 0
}

// concString returns a concrete string, forking over options of a symbolic string.
func (e *Exec) concString(v Value) string {
	switch s := v.(type) {
	case string:
		return s
	case *SymStr:
		i := e.concretize(s.Sel)
		if int(i) >= len(s.Opts) {
			e.abort("infeasible", "symstr selector out of range")
		}
		return s.Opts[i]
	}
	panic(fmt.Sprintf("concString: %T", v))
}

func (e *Exec) freshName(prefix string) string {
	e.fresh++
	return fmt.Sprintf("%s!%d", prefix, e.fresh)
}

func (e *Exec) addInput(name, kind string, t *Term) {
	if _, ok := e.inputIdx[name]; ok {
		return
	}
	iv := &InputVar{Name: name, Term: t, Kind: kind}
	e.inputs = append(e.inputs, iv)
	e.inputIdx[name] = iv
}

// model returns values of all inputs (and extra terms) under the current path condition plus extra constraints.
func (e *Exec) model(extraC []*Term, extraT []*Term) (map[string]string, []ModelVal, bool) {
	e.solver.Push()
	defer e.solver.Pop()
	for _, c := range extraC {
		e.solver.Assert(c)
	}
	if e.solver.Check() != Sat {
		return nil, nil, false
	}
	ts := make([]*Term, 0, len(e.inputs)+len(extraT))
	for _, iv := range e.inputs {
		ts = append(ts, iv.Term)
	}
	ts = append(ts, extraT...)
	mv, err := e.solver.GetValues(ts)
	if err != nil {
		fmt.Fprintln(os.Stderr, "model:", err)
		return nil, nil, false
	}
	m := map[string]string{}
	for i, iv := range e.inputs {
		m[iv.Name] = modelString(iv, mv[i])
	}
	return m, mv[len(e.inputs):], true
}

func modelString(iv *InputVar, v ModelVal) string {
	switch v.Sort.K {
	case SBool:
		if v.B {
			return "1"
		}
		return "0"
	case SBV:
		if iv != nil && (iv.Kind == "int" || iv.Kind == "tok") {
			return fmt.Sprint(iv.Term.sortSigned(v.U))
		}
		return fmt.Sprint(v.U)
	case SInt:
		return v.I.String()
	case SReal:
		return v.R.RatString()
	}
	return "?"
}

func (t *Term) sortSigned(u uint64) int64 {
	w := t.sort.W
	if w < 64 && u&(1<<uint(w-1)) != 0 {
		u |= ^mask(w)
	}
	return int64(u)
}

func sortedNames(m map[string]int) []string {
	ks := make([]string, 0, len(m))
	for k := range m {
		ks = append(ks, k)
	}
	sort.Strings(ks)
	return ks
}

var bigOne = big.NewInt(1)

var traceDecide = os.Getenv("GOSYM_TRACE") != ""

func truncStr(s string, n int) string {
	if len(s) > n {
		return s[:n] + "..."
	}
	return s
}
