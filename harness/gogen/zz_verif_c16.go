//go:build verif

package gogen

// C16: builder state is balanced across every construct.
// One construct is opened and closed from an arbitrary valid pre-state (enclosing
// blocks, pending operands below the base, flow flags, current function); its
// body is an arbitrary well-behaved effect (statements, flow flags, one nested
// construct).  After the construct ends every context component must equal its
// value at the start and exactly one statement must have been appended.

import (
	"go/ast"
	"go/constant"
	"go/token"
	"go/types"

	"github.com/goplus/gogen/internal/vp"
)

type verifSnap struct {
	stkLen  int
	base    int
	scope   *types.Scope
	block   codeBlock
	label   *ast.LabeledStmt
	fn      *Func
	nlabels int
	npanic  int
	nstmts  int
	vblock  bool
	hasL    bool // label L of the enclosing function is visible
}

func verifSnapshot(cb *CodeBuilder) verifSnap {
	return verifSnap{
		stkLen: cb.stk.Len(), base: cb.current.base, scope: cb.current.scope, block: cb.current.codeBlock,
		label: cb.current.label, fn: cb.current.fn, nlabels: len(cb.current.labels), npanic: len(cb.current.panicCalls),
		nstmts: len(cb.current.stmts), vblock: cb.InVBlock(), hasL: verifHasLabel(cb, "L"),
	}
}

func verifHasLabel(cb *CodeBuilder, name string) bool {
	_, ok := cb.LookupLabel(name)
	return ok
}

func verifAssertBalanced(tag string, pre, post verifSnap, consumed, produced, stmts int) {
	vp.Assert("C16."+tag+".labelctx", post.hasL == pre.hasL)
	vp.Assert("C16."+tag+".stack", post.stkLen == pre.stkLen-consumed+produced)
	vp.Assert("C16."+tag+".base", post.base == pre.base)
	vp.Assert("C16."+tag+".scope", post.scope == pre.scope)
	vp.Assert("C16."+tag+".block", post.block == pre.block)
	vp.Assert("C16."+tag+".fn", post.fn == pre.fn)
	vp.Assert("C16."+tag+".labels", post.nlabels == pre.nlabels && post.npanic == pre.npanic)
	vp.Assert("C16."+tag+".label", post.label == pre.label)
	vp.Assert("C16."+tag+".stmts", post.nstmts == pre.nstmts+stmts)
	vp.Assert("C16."+tag+".vblock", post.vblock == pre.vblock)
}

func verifIntVar(cb *CodeBuilder, name string) {
	cb.NewVar(types.Typ[types.Int], name)
}

func verifNonConst(name string, t types.Type) *Element {
	return &Element{Val: &ast.Ident{Name: name}, Type: t}
}

// verifBodyEffect: an arbitrary well-behaved body: 0..2 statements, arbitrary flow flags,
// optionally an expression statement that is a constant (skipped by EndStmt) and one nested construct.
func verifBodyEffect(cb *CodeBuilder, pkg *Package, tag string, budget int) {
	n := vp.Choose(tag+".nstmt", 2)
	for i := 0; i < n; i++ {
		e := verifNonConst("v", types.Typ[types.Int])
		if vp.Bool(tag + ".const") {
			e.CVal = constant.MakeInt64(1)
		}
		l0 := cb.InternalStack().Len()
		cb.Val(e).EndStmt()
		// every completed statement leaves the stack where it was (a skipped constant statement included)
		vp.Assert("C16.stmt.balanced", cb.InternalStack().Len() == l0)
	}
	cb.current.flows |= vp.Int(tag+".flows", 0, 31)
	if budget > 0 && vp.Choose(tag+".nest", 2) == 1 {
		verifConstruct(cb, pkg, tag+".in", budget-1)
	}
	if vp.Choose(tag+".dangling", 2) == 1 {
		// an operand left on the stack when the block is closed must be discarded by End
		cb.Val(verifNonConst("d", types.Typ[types.Int]))
	}
}

var verifConstructNames = []string{"block", "if", "ifelse", "for", "switch", "typeswitch", "select", "range", "closure", "varinit", "vblock", "inline"}

// verifConstruct opens and closes one construct, asserting the balance law.
func verifConstruct(cb *CodeBuilder, pkg *Package, tag string, budget int) {
	c := vp.Choose(tag+".c", len(verifConstructNames))
	name := verifConstructNames[c]
	pre := verifSnapshot(cb)
	tbool := types.Typ[types.Bool]
	switch name {
	case "block":
		cb.Block()
		verifBodyEffect(cb, pkg, tag+".b", budget)
		cb.End()
		verifAssertBalanced(name, pre, verifSnapshot(cb), 0, 0, 1)
	case "vblock":
		cb.VBlock()
		mid := verifSnapshot(cb)
		vp.Assert("C16.vblock.in", mid.vblock)
		cb.Val(verifNonConst("v", types.Typ[types.Int])).EndStmt()
		cb.End()
		verifAssertBalanced(name, pre, verifSnapshot(cb), 0, 0, 1)
	case "if":
		cb.If().Val(verifNonConst("c", tbool)).Then()
		verifBodyEffect(cb, pkg, tag+".t", budget)
		cb.End()
		verifAssertBalanced(name, pre, verifSnapshot(cb), 0, 0, 1)
	case "ifelse":
		cb.If()
		if vp.Bool(tag + ".init") {
			cb.DefineVarStart(token.NoPos, "iv").Val(1).EndInit(1)
		}
		cb.Val(verifNonConst("c", tbool)).Then()
		verifBodyEffect(cb, pkg, tag+".t", 0)
		cb.Else()
		verifBodyEffect(cb, pkg, tag+".e", budget)
		cb.End()
		verifAssertBalanced(name, pre, verifSnapshot(cb), 0, 0, 1)
	case "for":
		cb.For()
		if vp.Bool(tag + ".init") {
			cb.DefineVarStart(token.NoPos, "fi").Val(0).EndInit(1)
		}
		if vp.Bool(tag + ".cond") {
			cb.Val(verifNonConst("c", tbool))
		} else {
			cb.None()
		}
		cb.Then()
		verifBodyEffect(cb, pkg, tag+".b", budget)
		if vp.Bool(tag + ".post") {
			cb.Post().Val(verifNonConst("v", types.Typ[types.Int])).EndStmt()
		}
		cb.End()
		verifAssertBalanced(name, pre, verifSnapshot(cb), 0, 0, 1)
	case "switch":
		cb.Switch()
		if vp.Bool(tag + ".tag") {
			cb.Val(verifNonConst("v", types.Typ[types.Int]))
		} else {
			cb.None()
		}
		cb.Then()
		ncase := vp.Choose(tag+".ncase", 3)
		for i := 0; i < ncase; i++ {
			if i == ncase-1 && vp.Bool(tag+".default") {
				cb.DefaultThen()
			} else if vp.Bool(tag + ".tag") {
				cb.Case().Val(i).Then()
			} else {
				cb.Case().Val(verifNonConst("c", tbool)).Then()
			}
			verifBodyEffect(cb, pkg, tag+".k", budget*(1-i))
			if i < ncase-1 && vp.Bool(tag+".fall") {
				cb.Fallthrough()
			}
			cb.End()
		}
		cb.End()
		verifAssertBalanced(name, pre, verifSnapshot(cb), 0, 0, 1)
	case "typeswitch":
		bind := ""
		if vp.Bool(tag + ".bind") {
			bind = "t"
		}
		cb.TypeSwitch(bind).Val(verifNonConst("iface", TyEmptyInterface)).TypeAssertThen()
		ncase := vp.Choose(tag+".ncase", 3)
		for i := 0; i < ncase; i++ {
			if i == ncase-1 && vp.Bool(tag+".default") {
				cb.TypeDefaultThen()
			} else {
				cb.TypeCase().Typ(types.Typ[types.Int+types.BasicKind(i)]).Then()
			}
			verifBodyEffect(cb, pkg, tag+".k", budget*(1-i))
			cb.End()
		}
		cb.End()
		verifAssertBalanced(name, pre, verifSnapshot(cb), 0, 0, 1)
	case "select":
		ch := types.NewChan(types.SendRecv, types.Typ[types.Int])
		cb.Select()
		ncase := vp.Choose(tag+".ncase", 3)
		for i := 0; i < ncase; i++ {
			switch {
			case i == ncase-1 && vp.Bool(tag+".default"):
				cb.CommDefaultThen()
			case vp.Bool(tag + ".send"):
				cb.CommCase().Val(verifNonConst("ch", ch)).Val(1).Send().Then()
			default:
				cb.CommCase().DefineVarStart(token.NoPos, "rx").Val(verifNonConst("ch", ch)).UnaryOp(token.ARROW).EndInit(1).Then()
			}
			verifBodyEffect(cb, pkg, tag+".k", budget*(1-i))
			cb.End()
		}
		cb.End()
		verifAssertBalanced(name, pre, verifSnapshot(cb), 0, 0, 1)
	case "range":
		sl := types.NewSlice(types.Typ[types.Int])
		nv := vp.Choose(tag+".nvar", 3)
		names := []string{"rk", "rv"}[:nv]
		cb.ForRange(names...).Val(verifNonConst("sl", sl)).RangeAssignThen(token.NoPos)
		verifBodyEffect(cb, pkg, tag+".b", budget)
		cb.End()
		verifAssertBalanced(name, pre, verifSnapshot(cb), 0, 0, 1)
	case "closure":
		// a closure literal is an operand: +1 on the stack, no statement
		nres := vp.Choose(tag+".nres", 2)
		var results *types.Tuple
		if nres == 1 {
			results = types.NewTuple(pkg.NewParam(token.NoPos, "", types.Typ[types.Int], false))
		}
		cb.NewClosure(nil, results, false).BodyStart(pkg)
		verifBodyEffect(cb, pkg, tag+".b", budget)
		if nres == 1 {
			cb.Val(verifNonConst("v", types.Typ[types.Int])).Return(1)
		}
		cb.End()
		verifAssertBalanced(name, pre, verifSnapshot(cb), 0, 1, 0)
		cb.Call(0)
		mid := verifSnapshot(cb)
		vp.Assert("C16.closure.call", mid.stkLen == pre.stkLen+1)
		if nres == 1 {
			// f() used as a value: drop it as the right-hand side of a blank assignment
			cb.stk.PopN(1)
		} else {
			cb.EndStmt()
		}
	case "varinit":
		cb.NewVarStart(types.Typ[types.Int], "nv"+tag).Val(verifNonConst("v", types.Typ[types.Int])).EndInit(1)
		verifAssertBalanced(name, pre, verifSnapshot(cb), 0, 0, 1)
	case "inline":
		sig := types.NewSignatureType(nil, nil, nil, nil, nil, false)
		cb.CallInlineClosureStart(sig, 0, false)
		verifBodyEffect(cb, pkg, tag+".b", budget)
		cb.End()
		verifAssertBalanced(name, pre, verifSnapshot(cb), 0, 0, 1)
	}
	vp.Cover("ALL.c16."+name, true)
}

func VerifH_C16_constructs() {
	pkg := verifNewPkg()
	cb := pkg.NewFunc(nil, "f", nil, nil, false).BodyStart(pkg)
	// arbitrary valid pre-state: an enclosing closure, enclosing blocks, pending statements, flow flags
	// (the thorough tier reaches closure-in-closure through its nested constructs)
	preclosure := !vp.Thorough() && vp.Choose("preclosure", 2) == 1
	if preclosure {
		cb.NewClosure(nil, nil, false).BodyStart(pkg)
	}
	depth := 2 * vp.Choose("depth", 2)
	for i := 0; i < depth; i++ {
		cb.Block()
	}
	npre := vp.Choose("npre", 2)
	for i := 0; i < npre; i++ {
		cb.Val(verifNonConst("p", types.Typ[types.Int])).EndStmt()
	}
	cb.current.flows = vp.Int("flows0", 0, 31)
	if vp.Choose("prelabel", 2) == 1 {
		// the enclosing function already has a label (used, so that End reports nothing)
		l := cb.NewLabel(token.NoPos, token.NoPos, "L")
		cb.Label(l)
		cb.Val(verifNonConst("p", types.Typ[types.Int])).EndStmt()
		cb.Goto(l)
	}
	budget := 0
	if vp.Thorough() {
		budget = 1 // one nested construct inside the body
	}
	verifConstruct(cb, pkg, "c", budget)
	// closing the enclosing blocks and the function must succeed and leave a clean builder
	for i := 0; i < depth; i++ {
		cb.End()
	}
	if preclosure {
		cb.End().Call(0).EndStmt()
	}
	cb.End()
	vp.Assert("C16.final.stack", cb.stk.Len() == 0)
	vp.Assert("C16.final.fn", cb.current.fn == nil)
	vp.Assert("C16.final.scope", cb.current.scope == pkg.Types.Scope())
}

// Stack primitives: arity laws from an arbitrary stack.
func VerifH_C16_stack() {
	var s InternalStack
	s.Init()
	n := vp.Choose("n", 5)
	elems := make([]*Element, 8)
	for i := range elems {
		elems[i] = &Element{}
	}
	for i := 0; i < n; i++ {
		s.Push(elems[i])
	}
	op := vp.Choose("op", 6)
	k := vp.Int("k", 0, 4)
	vp.Assume(k <= n)
	switch op {
	case 0: // Ret(k, r1, r2)
		s.Ret(k, elems[6], elems[7])
		vp.Assert("C16.stack.ret.len", s.Len() == n-k+2)
		vp.Assert("C16.stack.ret.top", s.Get(-1) == elems[7] && s.Get(-2) == elems[6])
		if n-k > 0 {
			vp.Assert("C16.stack.ret.below", s.Get(-3) == elems[n-k-1])
		}
	case 1:
		s.PopN(k)
		vp.Assert("C16.stack.popn.len", s.Len() == n-k)
		if n-k > 0 {
			vp.Assert("C16.stack.popn.top", s.Get(-1) == elems[n-k-1])
		}
	case 2:
		vp.Assume(n > 0)
		e := s.Pop()
		vp.Assert("C16.stack.pop", e == elems[n-1] && s.Len() == n-1)
	case 3:
		s.SetLen(k)
		vp.Assert("C16.stack.setlen", s.Len() == k)
	case 4:
		args := s.GetArgs(k)
		vp.Assert("C16.stack.getargs.len", len(args) == k && s.Len() == n)
		if k > 0 {
			vp.Assert("C16.stack.getargs.last", args[k-1] == elems[n-1] && args[0] == elems[n-k])
		}
	case 5:
		vp.Assume(k > 0)
		s.Set(-k, elems[7])
		vp.Assert("C16.stack.set", s.Get(-k) == elems[7] && s.Len() == n)
	}
}
