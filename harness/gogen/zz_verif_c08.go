//go:build verif

package gogen

// C08: selector resolution follows Go's field and method lookup rules.
// Struct graphs are generated as Go source (type-checked by go/types itself); the selector
// name is symbolic; types.LookupFieldOrMethod is the oracle.

import (
	"go/ast"
	"go/importer"
	"go/parser"
	"go/token"
	"go/types"
	"strings"

	"github.com/goplus/gogen/internal/vp"
)

func verifOpt(name, text string) string {
	if vp.Choose(name, 2) == 1 {
		return text
	}
	return ""
}

func verifEmbed(name, typ string, allowNone bool) string {
	n := 2
	if allowNone {
		n = 3
	}
	switch vp.Choose(name, n) {
	case 0:
		return typ + "\n"
	case 1:
		return "*" + typ + "\n"
	}
	return ""
}

// verifGraphSrc: root R embeds A (and optionally B); A optionally embeds C; colliding field
// names x/y at several depths with distinguishable types; methods M on A (value) and B (pointer).
func verifGraphSrc() string {
	full := vp.Thorough()
	var sb strings.Builder
	sb.WriteString("package g\n")
	sb.WriteString("type C struct {\n" + verifOpt("C.x", "x string\n"))
	if full {
		sb.WriteString(verifOpt("C.y", "y bool\n"))
	} else {
		sb.WriteString("y bool\n")
	}
	sb.WriteString("}\n")
	sb.WriteString("type A struct {\n" + verifOpt("A.x", "x int\n"))
	sb.WriteString(verifEmbed("A.C", "C", true) + "}\n")
	sb.WriteString("type B struct {\n" + verifOpt("B.x", "x float64\n"))
	sb.WriteString("}\n")
	sb.WriteString("type R struct {\n" + verifOpt("R.x", "x []int\n") + verifEmbed("R.A", "A", false))
	if full {
		sb.WriteString(verifEmbed("R.B", "B", true))
	} else if vp.Choose("R.B", 2) == 1 {
		sb.WriteString("B\n")
	}
	sb.WriteString("}\n")
	sb.WriteString(verifOpt("A.M", "func (A) M() int { return 0 }\n"))
	sb.WriteString(verifOpt("B.M", "func (*B) M() string { return \"\" }\n"))
	if full {
		sb.WriteString(verifOpt("C.M", "func (C) M() bool { return false }\n"))
	}
	sb.WriteString("var r R\nvar pr *R\n")
	return sb.String()
}

func VerifH_C08_select() {
	src := verifGraphSrc()
	fset := token.NewFileSet()
	f, err := parser.ParseFile(fset, "g.go", src, 0)
	if err != nil {
		panic(err)
	}
	tconf := types.Config{Importer: importer.Default(), Error: func(error) {}}
	gpkg, _ := tconf.Check("example.com/g", fset, []*ast.File{f}, nil)
	conf := &Config{Types: gpkg, Importer: verifImporter{}, HandleErr: func(err error) { panic(err) }}
	pkg := NewPackage("", "g", conf)
	cb := pkg.CB()
	form := vp.Choose("form", 3) // r.name, pr.name, r.name as assignment target
	operand := []string{"r", "pr", "r"}[form]
	obj := gpkg.Scope().Lookup(operand)
	name := vp.Pick("name", "x", "y", "M", "z")
	ref := form == 2
	flag := MemberFlagVal
	if ref {
		flag = MemberFlagRef
	}
	var kind MemberKind
	var merr error
	var ret *Element
	class := vp.Try(func() {
		cb.Val(obj)
		kind, merr = cb.Member(name, 0, flag)
		ret = cb.InternalStack().Pop()
	})
	vp.Assert("C17.c08.nofault", class != vp.FaultPanic)
	if class != vp.NoPanic {
		return
	}
	// oracle (the name is concrete on every path by now: gogen compared it with field names)
	o, index, _ := types.LookupFieldOrMethod(obj.Type(), true, gpkg, name)
	vp.Fact("depth", len(index))
	vp.Fact("isref", verifB2I(ref))
	found := kind != MemberInvalid && merr == nil
	switch v := o.(type) {
	case nil:
		ambiguous := index != nil
		vp.Fact("ambiguous", verifB2I(ambiguous))
		vp.Assert("C08.reject", !found)
	case *types.Var:
		vp.Assert("C08.field.found", found)
		if found {
			vp.Assert("C08.field.kind", kind == MemberField)
			got := ret.Type
			if rt, ok := got.(*refType); ok {
				got = rt.typ
			}
			vp.Assert("C08.field.type", types.Identical(got, v.Type()))
		}
	case *types.Func:
		if ref {
			vp.Assert("C08.method.notassignable", !found)
		} else {
			vp.Assert("C08.method.found", found)
			if found {
				vp.Assert("C08.method.kind", kind == MemberMethod)
				sig, ok := ret.Type.(*types.Signature)
				vp.Assert("C08.method.type", ok && types.Identical(sig.Results(), v.Type().(*types.Signature).Results()))
			}
		}
	}
	vp.Cover("ALL.c08.found", found)
	vp.Cover("ALL.c08.notfound", !found)
}

// Named types whose underlying type is not a struct (map, int, slice, func) with value- and
// pointer-receiver methods, selected on values, pointers, and through value/pointer embedding.
const verifNonStructSrc = `package g

type M map[int]int // not string-keyed: m.key sugar (C11) does not apply

func (m M) Len() int { return len(m) }
func (m *M) Reset()  {}

type I int

func (i I) String() string { return "" }
func (i *I) Inc()          {}

type S []string

func (s S) First() string { return "" }

type F func(int) int

func (f F) Call() int { return 0 }

type EV struct {
	M
	I
}
type EP struct {
	*M
	*S
	F
}
type Deep struct{ *EP }

var (
	vm  M
	pm  *M
	vi  I
	pi  *I
	vs  S
	ps  *S
	vf  F
	pf  *F
	ev  EV
	pev *EV
	ep  EP
	pep *EP
	dp  Deep
)
`

func VerifH_C08_nonstruct() {
	fset := token.NewFileSet()
	f, err := parser.ParseFile(fset, "g.go", verifNonStructSrc, 0)
	if err != nil {
		panic(err)
	}
	tconf := types.Config{Importer: importer.Default(), Error: func(error) {}}
	gpkg, _ := tconf.Check("example.com/g", fset, []*ast.File{f}, nil)
	conf := &Config{Types: gpkg, Importer: verifImporter{}, HandleErr: func(err error) { panic(err) }}
	pkg := NewPackage("", "g", conf)
	cb := pkg.CB()
	operands := []string{"vm", "pm", "vi", "pi", "vs", "ps", "vf", "pf", "ev", "pev", "ep", "pep", "dp"}
	obj := gpkg.Scope().Lookup(operands[vp.Choose("operand", len(operands))])
	name := []string{"Len", "Reset", "String", "Inc", "First", "Call", "M", "I", "S", "F", "EP", "zz"}[vp.Choose("name", 12)]
	var kind MemberKind
	var merr error
	var ret *Element
	class := vp.Try(func() {
		cb.Val(obj)
		kind, merr = cb.Member(name, 0, MemberFlagVal)
		ret = cb.InternalStack().Pop()
	})
	vp.Assert("C17.c08.nonstruct.nofault", class != vp.FaultPanic)
	if class != vp.NoPanic {
		merr = verifErr("rejected")
	}
	o, _, _ := types.LookupFieldOrMethod(obj.Type(), true, gpkg, name)
	found := kind != MemberInvalid && merr == nil
	switch v := o.(type) {
	case nil:
		vp.Assert("C08.nonstruct.reject", !found)
	case *types.Var:
		vp.Assert("C08.nonstruct.field.found", found)
		if found {
			vp.Assert("C08.nonstruct.field.type", kind == MemberField && types.Identical(ret.Type, v.Type()))
		}
	case *types.Func:
		vp.Assert("C08.nonstruct.method.found", found)
		if found {
			sig, ok := ret.Type.(*types.Signature)
			vp.Observe("kind", int(kind))
			vp.Observe("type", types.TypeString(ret.Type, nil))
			vp.Assert("C08.nonstruct.method.type", kind == MemberMethod && ok && types.Identical(sig.Results(), v.Type().(*types.Signature).Results()))
		}
	}
}
