//go:build verif

package gogen

// C11: member access on `any` and on string-keyed maps, and inline closure calls, inside whole
// statements. A chain z.a.b.c (depth 1-3) over three root operand types is used in six statement
// contexts (define, var with comma-ok, assignment, return, call argument, if condition); an inline
// closure call with 0-2 parameters is used as an initialiser, an assignment source and a return
// value. The lowering hoists helper statements in front of the statement being built: the written
// function must type-check (a temporary used before its declaration does not), the string keys
// must be indexed in chain order, and every helper temporary is assigned exactly once before use.

import (
	"bytes"
	"go/ast"
	"go/importer"
	"go/parser"
	"go/token"
	"go/types"
	"strings"

	"github.com/goplus/gogen/internal/vp"
)

func verifC11TypeChecks(text string) (bool, string) {
	fset := token.NewFileSet()
	f, err := parser.ParseFile(fset, "out.go", text, 0)
	if err != nil {
		return false, "parse: " + err.Error()
	}
	first := ""
	tc := types.Config{Importer: importer.Default(), Error: func(e error) {
		if first == "" && !strings.Contains(e.Error(), "declared and not used") {
			first = e.Error()
		}
	}}
	tc.Check("main", fset, []*ast.File{f}, nil)
	return first == "", first
}

func VerifH_C11_anychain() {
	pkg := verifNewPkg()
	tany := types.Type(TyEmptyInterface)
	msa := types.NewMap(types.Typ[types.String], tany)
	roots := []types.Type{tany, msa, types.NewMap(types.Typ[types.String], msa)}
	rootT := roots[vp.Choose("root", len(roots))]
	depth := 1 + vp.Choose("depth", 3)
	ctx := vp.Choose("ctx", 6)
	keys := []string{"a", "b", "c"}[:depth]
	// an if header holds one init statement: the builder reports chains that need two or more hoisted
	// assertions there ("too many init statements"); those are outside the claim
	hoisted := depth - vp.Choose("root", len(roots))
	vp.Assume(ctx != 5 || hoisted <= 1)
	z := pkg.NewParam(token.NoPos, "z", rootT, false)
	var results *types.Tuple
	if ctx == 3 {
		results = types.NewTuple(pkg.NewParam(token.NoPos, "", tany, false))
	}
	var out bytes.Buffer
	class, perr := vp.TryVal(func() {
		cb := pkg.NewFunc(nil, "f", types.NewTuple(z), results, false).BodyStart(pkg)
		chain := func(lastLhs int) {
			cb.Val(z)
			for i, k := range keys {
				lhs := 0
				if i == len(keys)-1 {
					lhs = lastLhs
				}
				cb.MemberVal(k, lhs)
			}
		}
		switch ctx {
		case 0: // v := z.a.b
			cb.DefineVarStart(token.NoPos, "v")
			chain(0)
			cb.EndInit(1)
			cb.VarRef(nil).Val(cb.Scope().Lookup("v")).Assign(1).EndStmt()
		case 1: // var v, ok = z.a.b
			cb.NewVarStart(nil, "v", "ok")
			chain(2)
			cb.EndInit(1)
			cb.VarRef(nil).Val(cb.Scope().Lookup("v")).Assign(1).EndStmt()
			cb.VarRef(nil).Val(cb.Scope().Lookup("ok")).Assign(1).EndStmt()
		case 2: // var x any; x = z.a.b
			cb.NewVar(tany, "x")
			cb.VarRef(cb.Scope().Lookup("x"))
			chain(0)
			cb.Assign(1).EndStmt()
		case 3: // return z.a.b
			chain(0)
			cb.Return(1)
		case 4: // println(z.a.b)
			cb.Val(pkg.Builtin().Ref("println"))
			chain(0)
			cb.Call(1).EndStmt()
		case 5: // if z.a.b != nil {}
			cb.If()
			chain(0)
			cb.Val(nil).BinaryOp(token.NEQ).Then().End()
		}
		cb.End()
		if err := WriteTo(&out, pkg); err != nil {
			panic(err)
		}
	})
	vp.Assert("C17.c11.anychain.nofault", class != vp.FaultPanic)
	if class != vp.NoPanic {
		vp.Observe("error", verifErrText(perr))
	}
	vp.Assert("C11.anychain.accepted", class == vp.NoPanic)
	if class != vp.NoPanic {
		return
	}
	text := out.String()
	vp.Observe("text", text)
	ok, msg := verifC11TypeChecks(text)
	vp.Observe("gotypes", msg)
	vp.Assert("C01,C11.anychain.typechecks", ok)
	// the keys are indexed in chain order
	pos := 0
	inOrder := true
	for _, k := range keys {
		i := strings.Index(text[pos:], `["`+k+`"]`)
		if i < 0 {
			inOrder = false
			break
		}
		pos += i + 1
	}
	vp.Assert("C11.anychain.keys", inOrder)
	// every helper temporary is defined exactly once, before its first use
	helpersOK := true
	for n := 1; n <= 6; n++ {
		name := "_autoGo_" + string(rune('0'+n))
		def := strings.Index(text, name+", _ :=")
		if strings.Count(text, name+", _ :=") > 1 {
			helpersOK = false
		}
		if use := strings.Index(text, name+"["); use >= 0 && (def < 0 || def > use) {
			helpersOK = false
		}
	}
	vp.Assert("C11.anychain.helpers", helpersOK)
	vp.Cover("ALL.anychain.end", true)
}

func VerifH_C11_inlinecall() {
	pkg := verifNewPkg()
	tint := types.Typ[types.Int]
	nparams := vp.Choose("nparams", 3)
	ctx := vp.Choose("ctx", 4)
	nested := vp.Choose("nested", 2) == 1 // a second inline call as argument of the first
	var params []*types.Var
	for i := 0; i < nparams; i++ {
		params = append(params, pkg.NewParam(token.NoPos, "p"+string(rune('0'+i)), tint, false))
	}
	ret := pkg.NewParam(token.NoPos, "r", tint, false)
	sig := types.NewSignatureType(nil, nil, nil, types.NewTuple(params...), types.NewTuple(ret), false)
	sig0 := types.NewSignatureType(nil, nil, nil, nil, types.NewTuple(pkg.NewParam(token.NoPos, "q", tint, false)), false)
	var results *types.Tuple
	if ctx == 2 {
		results = types.NewTuple(pkg.NewParam(token.NoPos, "", tint, false))
	}
	var out bytes.Buffer
	class, perr := vp.TryVal(func() {
		cb := pkg.NewFunc(nil, "f", nil, results, false).BodyStart(pkg)
		call := func() {
			for i := 0; i < nparams; i++ {
				if nested && i == 0 {
					cb.CallInlineClosureStart(sig0, 0, false).Val(40).Return(1).End()
				} else {
					cb.Val(10 + i)
				}
			}
			cb.CallInlineClosureStart(sig, nparams, false)
			cb.Val(1)
			for _, p := range params {
				cb.Val(p).BinaryOp(token.ADD)
			}
			cb.Return(1).End()
		}
		switch ctx {
		case 0: // n := <inline call>
			cb.DefineVarStart(token.NoPos, "n")
			call()
			cb.EndInit(1)
			cb.VarRef(nil).Val(cb.Scope().Lookup("n")).Assign(1).EndStmt()
		case 1: // var x int; x = <inline call>
			cb.NewVar(tint, "x")
			cb.VarRef(cb.Scope().Lookup("x"))
			call()
			cb.Assign(1).EndStmt()
		case 2: // return <inline call>
			call()
			cb.Return(1)
		case 3: // var m int = <inline call>
			cb.NewVarStart(tint, "m")
			call()
			cb.EndInit(1)
			cb.VarRef(nil).Val(cb.Scope().Lookup("m")).Assign(1).EndStmt()
		}
		cb.End()
		if err := WriteTo(&out, pkg); err != nil {
			panic(err)
		}
	})
	vp.Assert("C17.c11.inlinecall.nofault", class != vp.FaultPanic)
	if class != vp.NoPanic {
		vp.Observe("error", verifErrText(perr))
	}
	vp.Assert("C11.inlinecall.accepted", class == vp.NoPanic)
	if class != vp.NoPanic {
		return
	}
	text := out.String()
	vp.Observe("text", text)
	ok, msg := verifC11TypeChecks(text)
	vp.Observe("gotypes", msg)
	vp.Assert("C01,C11.inlinecall.typechecks", ok)
	// arguments are bound once: every argument literal occurs exactly once in the output
	once := true
	for i := 0; i < nparams; i++ {
		lit := " = 1" + string(rune('0'+i)) + "\n"
		if nested && i == 0 {
			continue
		}
		if strings.Count(text, lit) != 1 {
			once = false
		}
	}
	vp.Assert("C11.inlinecall.bindonce", once)
	vp.Cover("ALL.inlinecall.end", true)
}
