//go:build verif

package gogen

// C04 (declarations): constant declarations whose initialisers are generated constant expressions
// (depth 2 over literals, typed conversions, iota, earlier constants, builtins). For every program
// go/types accepts, the builder must accept it and the declared constant must carry exactly the
// value go/types computes (and, for typed constants, the declared type).

import (
	"go/ast"
	"go/constant"
	"go/importer"
	"go/parser"
	"go/token"
	"go/types"
	"strings"

	"github.com/goplus/gogen/internal/vp"
)

var verifConstLeaves = []string{"1", "7", "0x10", "'a'", "2.5", "1e3", `"ab"`, "true", "iota", "K0", "int8(5)", "uint8(200)", "float32(1.5)", "1 << 62", "-3", "0.1", "3i", "uint64(1) << 63", "int64(-1)", `"é"`}

func (g *verifGen) constExpr(depth int) string {
	if depth == 0 {
		return verifConstLeaves[g.pick(len(verifConstLeaves))]
	}
	return g.constShape(g.pick(34), depth)
}

func (g *verifGen) constShape(shape, depth int) string {
	C := func() string { return g.constExpr(depth - 1) }
	switch shape {
	case 0:
		return "(" + C() + ") + (" + C() + ")"
	case 1:
		return "(" + C() + ") - (" + C() + ")"
	case 2:
		return "(" + C() + ") * (" + C() + ")"
	case 3:
		return "(" + C() + ") / (" + C() + ")"
	case 4:
		return "(" + C() + ") % (" + C() + ")"
	case 5:
		return "(" + C() + ") << 3"
	case 6:
		return "(" + C() + ") >> 1"
	case 7:
		return "(" + C() + ") & (" + C() + ")"
	case 8:
		return "(" + C() + ") | (" + C() + ")"
	case 9:
		return "(" + C() + ") ^ (" + C() + ")"
	case 10:
		return "(" + C() + ") &^ (" + C() + ")"
	case 11:
		return "(" + C() + ") == (" + C() + ")"
	case 12:
		return "(" + C() + ") < (" + C() + ")"
	case 13:
		return "(" + C() + ") && (" + C() + ")"
	case 14:
		return "!(" + C() + ")"
	case 15:
		return "-(" + C() + ")"
	case 16:
		return "^(" + C() + ")"
	case 17:
		return "+(" + C() + ")"
	case 18:
		return "int(" + C() + ")"
	case 19:
		return "float64(" + C() + ")"
	case 20:
		return "uint8(" + C() + ")"
	case 21:
		return "len(" + C() + ")"
	case 22:
		return "min(" + C() + ", " + C() + ")"
	case 23:
		return "max(" + C() + ", " + C() + ", 2)"
	case 24:
		return "complex(" + C() + ", " + C() + ")"
	case 25:
		return "real(" + C() + ")"
	case 26:
		return "imag(" + C() + ")"
	case 27:
		return "(" + C() + ") + " + `"z"`
	case 28:
		return "(" + C() + ") << (" + C() + ")"
	case 29:
		return "string(rune(" + C() + "))"
	case 30:
		return "int32(" + C() + ") * 3"
	case 31:
		return "(" + C() + ") <= (" + C() + ")"
	case 32:
		return "(" + C() + ") != (" + C() + ")"
	case 33:
		return "(" + C() + ") || (" + C() + ")"
	}
	return "1"
}

func verifConstEqual(a, b constant.Value) bool {
	if a == nil || b == nil {
		return a == nil && b == nil
	}
	if a.Kind() == constant.Complex || b.Kind() == constant.Complex {
		a, b = constant.ToComplex(a), constant.ToComplex(b)
		if a.Kind() != constant.Complex || b.Kind() != constant.Complex {
			return false
		}
		return constant.Compare(constant.Real(a), token.EQL, constant.Real(b)) && constant.Compare(constant.Imag(a), token.EQL, constant.Imag(b))
	}
	ka, kb := a.Kind(), b.Kind()
	num := func(k constant.Kind) bool { return k == constant.Int || k == constant.Float }
	if ka != kb && !(num(ka) && num(kb)) {
		return false
	}
	return constant.Compare(a, token.EQL, b)
}

func VerifH_C04_constdecl() {
	g := &verifGen{}
	shape := vp.Choose("shape", 34)
	g.focus = 1 + vp.Choose("focus", 3)
	typed := []string{"", "int", "float64", "uint8", "string", "bool", "complex128"}[vp.Choose("typed", 7)]
	expr := g.constShape(shape, 2)
	vp.Assume(g.focus <= g.n)
	vp.Observe("expr", expr)
	src := "package p\n\nconst K0 = 3\n\nconst (\n\tKa = 10\n\tK " + typed + " = " + expr + "\n)\n"
	fset := token.NewFileSet()
	file, err := parser.ParseFile(fset, "p.go", src, 0)
	vp.Assume(err == nil)
	bad := false
	tc := types.Config{Importer: importer.Default(), Error: func(error) { bad = true }}
	upkg, _ := tc.Check("example.com/p", fset, []*ast.File{file}, nil)
	vp.Assume(!bad) // only programs Go accepts: the builder's acceptance of invalid constants is C01's subject
	want := upkg.Scope().Lookup("K").(*types.Const)
	conf := &Config{Importer: verifImporter{}, HandleErr: func(err error) { panic(err) }}
	pkg := NewPackage("example.com/p", "p", conf)
	fe := &verifFE{pkg: pkg, labels: map[string]*Label{}}
	class, perr := vp.TryVal(func() { fe.file(file) })
	vp.Assert("C17.constdecl.nofault", class != vp.FaultPanic)
	isTyped := typed != ""
	vp.Fact("typeddecl", verifB2I(isTyped))
	vp.Fact("strrune", verifB2I(strings.Contains(expr, "string(rune(")))
	vp.Fact("xorunsigned", verifB2I(shape == 16 && strings.Contains(expr, "uint")))
	vp.Fact("typedfloat", verifB2I(typed == "float64" || typed == "complex128"))
	vp.Assert("C02.constdecl.accepted", class == vp.NoPanic)
	if class != vp.NoPanic {
		vp.Observe("error", verifErrText(perr))
		return
	}
	got, ok := pkg.Types.Scope().Lookup("K").(*types.Const)
	vp.Assert("C04.constdecl.declared", ok)
	if !ok {
		return
	}
	vp.Observe("got", got.Val().ExactString())
	vp.Observe("want", want.Val().ExactString())
	vp.Assert("C04.constdecl.value", verifConstEqual(got.Val(), want.Val()))
	if isTyped {
		vp.Assert("C03.constdecl.type", types.TypeString(got.Type(), nil) == types.TypeString(want.Type(), nil))
	}
}

