//go:build verif

package gogen

// C10 (bodies): functions with a result, built through the front end from generated Go source.
// The builder's diagnostics (missing return, unused / duplicate label) are compared with what
// go/types reports for the same source.

import (
	"go/ast"
	"go/importer"
	"go/parser"
	"go/token"
	"go/types"
	"strings"

	"github.com/goplus/gogen/internal/vp"
)

type verifTermGen struct {
	verifGen
	nl int
}

func (g *verifTermGen) label() string {
	g.nl++
	return "T" + string(rune('0'+g.nl))
}

// term generates a statement list that may or may not be terminating.
func (g *verifTermGen) term(depth int) string {
	if depth == 0 {
		return []string{"return a", `panic("x")`, "a++", "for {\n}", "select {}", "b = 1\nreturn b"}[g.pick(6)]
	}
	return g.termShape(g.pick(29), depth)
}

func (g *verifTermGen) termShape(shape, depth int) string {
	T := func() string { return g.term(depth - 1) }
	switch shape {
	case 0:
		return "if ok {\n" + T() + "\n} else {\n" + T() + "\n}"
	case 1:
		return "if ok {\n" + T() + "\n}"
	case 2:
		return "if ok {\n" + T() + "\n} else if a > b {\n" + T() + "\n} else {\n" + T() + "\n}"
	case 3:
		return "for {\n" + T() + "\n}"
	case 4:
		return "for {\nif ok {\nbreak\n}\n" + T() + "\n}"
	case 5:
		return "for a < b {\n" + T() + "\n}"
	case 6:
		l := g.label()
		return l + ":\nfor {\nfor {\nbreak " + l + "\n}\n}"
	case 7:
		l := g.label()
		return l + ":\nfor {\nfor {\ncontinue " + l + "\n}\n}"
	case 8:
		return "switch {\ncase ok:\n" + T() + "\ndefault:\n" + T() + "\n}"
	case 9:
		return "switch a {\ncase 1:\n" + T() + "\ncase 2:\n" + T() + "\n}"
	case 10:
		return "switch a {\ncase 1:\nfallthrough\ndefault:\n" + T() + "\n}"
	case 11:
		return "switch {\ndefault:\nif ok {\nbreak\n}\n" + T() + "\n}"
	case 12:
		return "switch e.(type) {\ncase int:\n" + T() + "\ndefault:\n" + T() + "\n}"
	case 13:
		return "select {\ncase <-ch:\n" + T() + "\ncase ch <- 1:\n" + T() + "\n}"
	case 14:
		return "select {\ncase <-ch:\nbreak\ndefault:\n" + T() + "\n}"
	case 15:
		return "{\n" + T() + "\n}"
	case 16:
		l := g.label()
		return l + ":\na++\nif ok {\ngoto " + l + "\n}\n" + T()
	case 17: // closure after a panic branch
		fn := "g" + g.label()
		return "if ok {\npanic(\"a\")\n} else {\n" + fn + " := func() int {\n" + T() + "\n}\nreturn " + fn + "()\n}"
	case 18: // closure before the terminating statement
		fn := "g" + g.label()
		return fn + " := func() int {\nreturn 1\n}\n_ = " + fn + "\n" + T()
	case 19: // shadowed panic is an ordinary call
		return "panic := func(string) {}\npanic(\"x\")"
	case 20: // panic shadowed in a closure only
		fn := "g" + g.label()
		return fn + " := func() {\npanic := func(string) {}\npanic(\"y\")\n}\n_ = " + fn + "\npanic(\"x\")"
	case 21:
		l := g.label()
		return l + ":\nswitch {\ncase ok:\nfor {\nbreak " + l + "\n}\ndefault:\n" + T() + "\n}"
	case 22: // unused label
		l := g.label()
		return l + ":\n" + T()
	case 23:
		return "for range s {\n" + T() + "\n}"
	case 24:
		return "defer func() {\n_ = recover()\n}()\n" + T()
	case 25:
		return "switch {\ncase ok:\n" + T() + "\ncase a > 0:\npanic(\"p\")\ndefault:\ngo func() {\n}()\n" + T() + "\n}"
	case 26: // a label inside a function literal, then the same label name in the enclosing function
		fn, l := "g"+g.label(), g.label()
		return fn + " := func() {\n" + l + ":\nfor {\nbreak " + l + "\n}\n}\n_ = " + fn + "\n" + l + ":\nfor {\nif ok {\nbreak " + l + "\n}\n}\n" + T()
	case 27: // the other order
		fn, l := "g"+g.label(), g.label()
		return l + ":\nfor {\nif ok {\nbreak " + l + "\n}\n}\n" + fn + " := func() {\n" + l + ":\nfor {\nbreak " + l + "\n}\n}\n_ = " + fn + "\n" + T()
	case 28: // an unused label inside a function literal, a used one of the same name outside
		fn, l := "g"+g.label(), g.label()
		return fn + " := func() {\n" + l + ":\na++\n}\n_ = " + fn + "\n" + l + ":\nfor {\nif ok {\nbreak " + l + "\n}\n}\n" + T()
	}
	return "return 0"
}

func verifDiagClasses(src string) (classes map[string]bool, otherErr bool) {
	classes = map[string]bool{}
	fset := token.NewFileSet()
	f, err := parser.ParseFile(fset, "p.go", src, 0)
	if err != nil {
		return classes, true
	}
	conf := types.Config{Importer: importer.Default(), Error: func(err error) {
		msg := err.Error()
		switch {
		case strings.Contains(msg, "missing return"):
			classes["missing return"] = true
		case strings.Contains(msg, "label") && (strings.Contains(msg, "not used")):
			classes["label unused"] = true
		case strings.Contains(msg, "label") && strings.Contains(msg, "already"):
			classes["label duplicate"] = true
		default:
			otherErr = true
		}
	}}
	conf.Check("example.com/p", fset, []*ast.File{f}, nil)
	return
}

func VerifH_C10_bodies() {
	g := &verifTermGen{}
	tmpl := vp.Choose("shape", 29)
	g.focus = 1 + vp.Choose("focus", 8)
	if vp.Thorough() {
		g.focus2 = g.focus + vp.Choose("focus2", 4)
		if g.focus2 == g.focus {
			g.focus2 = 0
		}
	}
	body := g.termShape(tmpl, 2)
	vp.Assume(g.focus <= g.n && g.focus2 <= g.n)
	vp.Observe("body", body)
	src := verifRTHeader + "\nfunc body() int {\n" + body + "\n}\n"
	classes, other := verifDiagClasses(src)
	vp.Assert("ALL.c10bodies.generator.valid", !other)
	if other {
		return
	}
	upkg, file, _ := verifTypeCheckLoose(src)
	orig := verifFindFunc(file, "body")
	conf := &Config{Types: upkg, Importer: verifImporter{}, HandleErr: func(err error) { panic(err) }}
	pkg := NewPackage("", "p", conf)
	fe := &verifFE{pkg: pkg, labels: map[string]*Label{}}
	fe.lazyLabels = vp.Choose("lazylabels", 2) == 1 // both front-end strategies: labels declared up front / at first mention
	results := types.NewTuple(types.NewParam(token.NoPos, pkg.Types, "", types.Typ[types.Int]))
	class, perr := vp.TryVal(func() {
		fe.cb = pkg.NewFunc(nil, "body2", nil, results, false).BodyStart(pkg)
		fe.declareLabels(orig.Body.List)
		fe.stmts(orig.Body.List)
		fe.cb.End()
	})
	vp.Assert("C17.c10bodies.nofault", class != vp.FaultPanic)
	msg := ""
	if class != vp.NoPanic {
		msg = verifErrText(perr)
		vp.Observe("error", msg)
	}
	accepted := class == vp.NoPanic
	vp.Fact("gomissing", verifB2I(classes["missing return"]))
	if len(classes) == 0 {
		vp.Assert("C10.bodies.nospurious", accepted)
		return
	}
	vp.Assert("C10.bodies.reported", !accepted)
	if accepted {
		return
	}
	got := "other"
	switch {
	case strings.Contains(msg, "missing return"):
		got = "missing return"
	case strings.Contains(msg, "label") && strings.Contains(msg, "not used"):
		got = "label unused"
	case strings.Contains(msg, "label") && strings.Contains(msg, "already defined"):
		got = "label duplicate"
	}
	vp.Assert("C10.bodies.sameclass", classes[got])
}

// verifTypeCheckLoose type-checks and returns package and file even when diagnostics were reported.
func verifTypeCheckLoose(src string) (*types.Package, *ast.File, bool) {
	fset := token.NewFileSet()
	f, err := parser.ParseFile(fset, "p.go", src, 0)
	if err != nil {
		return nil, nil, false
	}
	bad := false
	conf := types.Config{Importer: importer.Default(), Error: func(error) { bad = true }}
	pkg, _ := conf.Check("example.com/p", fset, []*ast.File{f}, nil)
	return pkg, f, !bad
}
