//go:build verif

package gogen

// C05: assignability, comparability and convertibility verdicts match the Go spec.

import (
	"fmt"
	"go/ast"
	"go/constant"
	"go/types"

	"github.com/goplus/gogen/internal/vp"
)

// typed value of type V assigned to T
func VerifH_C05_assignTyped() {
	_, all := verifUniverse("")
	pkg := verifNewPkg()
	V := verifPickType("V", all)
	T := verifPickType("T", all)
	var got bool
	class := vp.Try(func() { got = AssignableTo(pkg, V.typ, T.typ) })
	vp.Assert("C17.c05.assign.nofault", class == vp.NoPanic)
	if class != vp.NoPanic {
		return
	}
	want := types.AssignableTo(V.typ, T.typ)
	vp.Assert("C01,C02,C05.assign.typed", got == want)
	// the same verdict is reached by a construct that asks (argument matching)
	arg := &Element{Val: &ast.Ident{Name: "v"}, Type: V.typ}
	got2 := true
	class = vp.Try(func() {
		if err := matchType(pkg, arg, T.typ, "argument"); err != nil {
			got2 = false
		}
	})
	if class == vp.NoPanic {
		vp.Assert("C01,C02,C05.assign.construct", got2 == want)
	}
	vp.Cover("ALL.c05.assign.yes", got)
	vp.Cover("ALL.c05.assign.no", !got)
}

var verifUntypedKinds = []types.BasicKind{types.UntypedBool, types.UntypedInt, types.UntypedRune, types.UntypedFloat, types.UntypedComplex, types.UntypedString, types.UntypedNil}

// specAssignUntyped: may the untyped constant (kind k, value c) be assigned to T?
func verifSpecAssignUntyped(k types.BasicKind, c constant.Value, T types.Type) bool {
	u := T.Underlying()
	if k == types.UntypedNil {
		switch u.(type) {
		case *types.Pointer, *types.Slice, *types.Map, *types.Chan, *types.Signature, *types.Interface:
			return true
		}
		if b, ok := u.(*types.Basic); ok && b.Kind() == types.UnsafePointer {
			return true
		}
		return false
	}
	if it, ok := u.(*types.Interface); ok {
		// the default type of the constant must implement the interface
		return types.AssignableTo(types.Default(types.Typ[k]), it)
	}
	b, ok := u.(*types.Basic)
	if !ok {
		return false
	}
	switch k {
	case types.UntypedBool:
		return b.Info()&types.IsBoolean != 0
	case types.UntypedString:
		return b.Info()&types.IsString != 0
	}
	if b.Info()&types.IsNumeric == 0 {
		return false
	}
	return verifReprIn(c, b)
}

func verifUntypedSrc(k types.BasicKind, c constant.Value) string {
	if k == types.UntypedNil {
		return "nil"
	}
	return verifOperandSrc(verifOperand{kind: k, val: c})
}

// untyped constant assigned to T (representability included)
func VerifH_C05_assignConst() {
	_, all := verifUniverse("")
	pkg := verifNewPkg()
	k := verifUntypedKinds[vp.Choose("k", len(verifUntypedKinds))]
	// every basic target kind in both tiers (constants are symbolic, so a target costs a handful of paths)
	T := verifPickNamed("T", all, verifConstTargets)
	var c constant.Value
	if k != types.UntypedNil {
		c = verifOperandOfKind("c", k).val
	}
	arg := &Element{Val: &ast.Ident{Name: "c"}, Type: types.Typ[k], CVal: c}
	var got bool
	class := vp.Try(func() { got = AssignableConv(pkg, types.Typ[k], T.typ, arg) })
	vp.Assert("C17.c05.assignconst.nofault", class != vp.FaultPanic)
	if class == vp.FaultPanic {
		return
	}
	if class != vp.NoPanic {
		got = false // rejected with a message
	}
	want := verifSpecAssignUntyped(k, c, T.typ)
	vp.Fact("k", int(k))
	tk := 0
	if b, ok := T.typ.Underlying().(*types.Basic); ok {
		tk = int(b.Kind())
	}
	vp.Fact("tkind", tk)
	if want {
		vp.Assert("C02,C05.assignconst.complete", got)
	} else {
		vp.Assert("C01,C05.assignconst.sound", !got)
	}
	if !vp.Symbolic() {
		ok, msg := verifGoAccepts(fmt.Sprintf("\nvar _ = func() { %s = %s }\n", T.name, verifUntypedSrc(k, c)))
		vp.Oracle("spec.assignconst", ok == want, fmt.Sprintf("%s = %s: spec %v go/types %v (%s)", T.name, verifUntypedSrc(k, c), want, ok, msg))
	}
}

// comparability: verdict, symmetry
func VerifH_C05_compare() {
	_, all := verifUniverse("")
	pkg := verifNewPkg()
	V := verifPickType("V", all)
	T := verifPickType("T", all)
	a := &Element{Val: &ast.Ident{Name: "t_v"}, Type: V.typ}
	b := &Element{Val: &ast.Ident{Name: "t_t"}, Type: T.typ}
	var ab, ba bool
	class := vp.Try(func() {
		ab = ComparableTo(pkg, a, b)
		ba = ComparableTo(pkg, b, a)
	})
	vp.Assert("C17.c05.compare.nofault", class == vp.NoPanic)
	if class != vp.NoPanic {
		return
	}
	vp.Fact("sameunder", verifB2I(V.typ.Underlying() == T.typ.Underlying()))
	vp.Fact("uncomparable", verifB2I(!types.Comparable(V.typ) || !types.Comparable(T.typ)))
	vp.Assert("C05.compare.symmetric", ab == ba)
	// Go: x == y is valid iff one operand is assignable to the other's type and the type is comparable
	// (interface operands: the non-interface type must be comparable and implement the interface)
	want := (types.AssignableTo(V.typ, T.typ) || types.AssignableTo(T.typ, V.typ)) && types.Comparable(V.typ) && types.Comparable(T.typ)
	if want {
		vp.Assert("C05.compare.complete", ab)
	} else {
		vp.Assert("C05.compare.sound", !ab)
	}
	if !vp.Symbolic() {
		ok, msg := verifGoAccepts(fmt.Sprintf("\nvar _ = %s == %s\n", V.name, T.name))
		vp.Oracle("spec.compare", ok == want, fmt.Sprintf("%s == %s: spec %v go/types %v (%s)", V.name, T.name, want, ok, msg))
	}
}

// comparability of a typed operand (variable or typed constant) with an untyped constant, both orders
func VerifH_C05_compareConst() {
	_, all := verifUniverse("")
	pkg := verifNewPkg()
	k := verifUntypedKinds[vp.Choose("k", len(verifUntypedKinds))]
	T := verifPickNamed("T", all, verifConstTargets)
	var c constant.Value
	if k != types.UntypedNil {
		c = verifOperandOfKind("c", k).val
	}
	typed := &Element{Val: &ast.Ident{Name: T.name}, Type: T.typ}
	// the typed operand may itself be a constant (const t T = 1): its value must not matter
	if b, ok := T.typ.Underlying().(*types.Basic); ok && b.Info()&types.IsInteger != 0 && vp.Choose("typedconst", 2) == 1 {
		typed.CVal = constant.MakeInt64(1)
	}
	untyped := &Element{Val: &ast.Ident{Name: "c"}, Type: types.Typ[k], CVal: c}
	var ab, ba bool
	class := vp.Try(func() {
		ab = ComparableTo(pkg, typed, untyped)
		ba = ComparableTo(pkg, untyped, typed)
	})
	vp.Assert("C17.c05.compareconst.nofault", class != vp.FaultPanic)
	if class != vp.NoPanic {
		return
	}
	vp.Fact("k", int(k))
	tk := 0
	if b, ok := T.typ.Underlying().(*types.Basic); ok {
		tk = int(b.Kind())
	}
	vp.Fact("tkind", tk)
	vp.Assert("C05.compareconst.symmetric", ab == ba)
	// Go: the constant is converted to the typed operand's type (must be representable), and
	// that type must be comparable (nil: only with pointer, func, slice, map, chan, interface)
	want := verifSpecAssignUntyped(k, c, T.typ)
	if k != types.UntypedNil {
		want = want && types.Comparable(T.typ)
	}
	if want {
		vp.Assert("C02,C05.compareconst.complete", ab)
	} else {
		vp.Assert("C01,C05.compareconst.sound", !ab)
	}
	if !vp.Symbolic() && typed.CVal == nil {
		ok, msg := verifGoAccepts(fmt.Sprintf("\nvar _ = %s == %s\n", T.name, verifUntypedSrc(k, c)))
		vp.Oracle("spec.compareconst", ok == want, fmt.Sprintf("%s == %s: spec %v go/types %v (%s)", T.name, verifUntypedSrc(k, c), want, ok, msg))
	}
}

// convertibility of typed values and default types
func VerifH_C05_convert() {
	_, all := verifUniverse("")
	pkg := verifNewPkg()
	V := verifPickType("V", all)
	T := verifPickType("T", all)
	var got bool
	class := vp.Try(func() { got = ConvertibleTo(pkg, V.typ, T.typ) })
	vp.Assert("C17.c05.convert.nofault", class == vp.NoPanic)
	if class != vp.NoPanic {
		return
	}
	want := types.ConvertibleTo(V.typ, T.typ)
	vp.Assert("C05.convert.typed", got == want)
	vp.Assert("C05.default.typed", types.Identical(Default(pkg, V.typ), types.Default(V.typ)))
}

func VerifH_C05_default() {
	pkg := verifNewPkg()
	k := verifUntypedKinds[vp.Choose("k", len(verifUntypedKinds))]
	vp.Assert("C05.default.untyped", types.Identical(Default(pkg, types.Typ[k]), types.Default(types.Typ[k])))
}
