//go:build verif

package format

// C12: every expression node kind in every operand position. A tree is an inner expression placed
// in the hole of an outer context (thorough: two nested contexts), built without any ParenExpr
// except where the builder itself always inserts one (conversions to channel types); the printed
// text must parse back to the same tree up to parentheses.

import (
	"bytes"
	"go/ast"
	"go/parser"
	"go/token"

	"github.com/goplus/gogen/internal/vp"
)

func verifID(n string) *ast.Ident { return &ast.Ident{Name: n} }

const verifNInner = 30

func verifInner(k int) ast.Expr {
	y := verifID("y")
	switch k {
	case 0:
		return verifID("x")
	case 1:
		return &ast.BasicLit{Kind: token.STRING, Value: `"s"`}
	case 2, 3, 4, 5, 6, 7:
		return &ast.UnaryExpr{Op: verifUnOps[k-2], X: y}
	case 8:
		return &ast.StarExpr{X: y}
	case 9, 10, 11, 12, 13:
		op := []token.Token{token.LOR, token.LAND, token.EQL, token.ADD, token.MUL}[k-9]
		return &ast.BinaryExpr{X: verifID("a"), Op: op, Y: verifID("b")}
	case 14:
		return &ast.CallExpr{Fun: verifID("f"), Args: []ast.Expr{y}}
	case 15:
		return &ast.IndexExpr{X: y, Index: verifID("i")}
	case 16:
		return &ast.SliceExpr{X: y, Low: verifID("i"), High: verifID("j")}
	case 17:
		return &ast.SelectorExpr{X: y, Sel: verifID("fld")}
	case 18:
		return &ast.TypeAssertExpr{X: y, Type: verifID("T")}
	case 19:
		return &ast.CompositeLit{Type: verifID("T"), Elts: []ast.Expr{y}}
	case 20:
		return &ast.FuncLit{Type: &ast.FuncType{Params: &ast.FieldList{}}, Body: &ast.BlockStmt{}}
	case 21: // conversion to a pointer type: the printer supplies the parentheses
		return &ast.CallExpr{Fun: &ast.StarExpr{X: verifID("T")}, Args: []ast.Expr{y}}
	case 22: // conversion to a receive-only channel type: the builder always parenthesises the type
		return &ast.CallExpr{Fun: &ast.ParenExpr{X: &ast.ChanType{Dir: ast.RECV, Value: verifID("T")}}, Args: []ast.Expr{y}}
	case 23: // conversion to a function type
		return &ast.CallExpr{Fun: &ast.FuncType{Params: &ast.FieldList{}}, Args: []ast.Expr{y}}
	case 24:
		return &ast.CompositeLit{Type: &ast.ArrayType{Elt: verifID("T")}, Elts: []ast.Expr{&ast.KeyValueExpr{Key: verifID("i"), Value: y}}}
	case 25:
		return &ast.CompositeLit{Type: &ast.MapType{Key: verifID("K"), Value: verifID("T")}, Elts: []ast.Expr{&ast.KeyValueExpr{Key: verifID("k"), Value: y}}}
	case 26:
		return &ast.CallExpr{Fun: &ast.FuncLit{Type: &ast.FuncType{Params: &ast.FieldList{List: []*ast.Field{{Names: []*ast.Ident{verifID("p")}, Type: verifID("T")}}},
			Results: &ast.FieldList{List: []*ast.Field{{Type: verifID("T")}}}}, Body: &ast.BlockStmt{List: []ast.Stmt{&ast.ReturnStmt{Results: []ast.Expr{verifID("p")}}}}}, Args: []ast.Expr{y}}
	case 27:
		return &ast.IndexListExpr{X: verifID("g"), Indices: []ast.Expr{verifID("T"), verifID("K")}}
	case 28:
		return &ast.CallExpr{Fun: verifID("f"), Args: []ast.Expr{y}, Ellipsis: 1}
	case 29:
		return &ast.SliceExpr{X: y, Low: verifID("i"), High: verifID("j"), Max: verifID("k"), Slice3: true}
	}
	return verifID("x")
}

const verifNOuter = 32

func verifOuter(j int, h ast.Expr) ast.Expr {
	z := verifID("z")
	switch {
	case j < 6:
		return &ast.UnaryExpr{Op: verifUnOps[j], X: h}
	case j == 6:
		return &ast.StarExpr{X: h}
	case j < 17:
		op := []token.Token{token.LOR, token.LAND, token.EQL, token.ADD, token.MUL}[(j-7)/2]
		if (j-7)%2 == 0 {
			return &ast.BinaryExpr{X: h, Op: op, Y: z}
		}
		return &ast.BinaryExpr{X: z, Op: op, Y: h}
	}
	switch j {
	case 17:
		return &ast.CallExpr{Fun: h, Args: []ast.Expr{z}}
	case 18:
		return &ast.CallExpr{Fun: z, Args: []ast.Expr{h, verifID("w")}}
	case 19:
		return &ast.IndexExpr{X: h, Index: z}
	case 20:
		return &ast.IndexExpr{X: z, Index: h}
	case 21:
		return &ast.SliceExpr{X: h, Low: z}
	case 22:
		return &ast.SliceExpr{X: z, Low: h, High: verifID("w")}
	case 23:
		return &ast.SelectorExpr{X: h, Sel: verifID("sel")}
	case 24:
		return &ast.TypeAssertExpr{X: h, Type: verifID("U")}
	case 25:
		return &ast.CompositeLit{Type: verifID("U"), Elts: []ast.Expr{h}}
	case 26:
		return &ast.CompositeLit{Type: verifID("U"), Elts: []ast.Expr{&ast.KeyValueExpr{Key: verifID("key"), Value: h}}}
	case 27:
		return &ast.CompositeLit{Type: &ast.ArrayType{Elt: verifID("U")}, Elts: []ast.Expr{&ast.KeyValueExpr{Key: h, Value: z}}}
	case 28:
		return &ast.CallExpr{Fun: z, Args: []ast.Expr{h}, Ellipsis: 1}
	case 29:
		return &ast.BinaryExpr{X: z, Op: token.SHL, Y: h}
	case 30:
		return &ast.BinaryExpr{X: h, Op: token.AND_NOT, Y: z}
	case 31:
		return &ast.BinaryExpr{X: z, Op: token.SUB, Y: h}
	}
	return h
}

func VerifH_C12_exprtree() {
	in := vp.Choose("inner", verifNInner)
	out := vp.Choose("outer", verifNOuter)
	// *(a op b) is excluded: no binary operator yields a pointer, so the builder never holds a
	// dereference of a binary expression (go/printer prints it as *a op b, like the fork)
	vp.Assume(!(out == 6 && in >= 9 && in <= 13))
	e := verifOuter(out, verifInner(in))
	if vp.Thorough() {
		if o2 := vp.Choose("outer2", verifNOuter+1); o2 > 0 {
			vp.Assume(!(o2-1 == 6 && out >= 7 && out <= 16) && !(o2-1 == 6 && out >= 29))
			e = verifOuter(o2-1, e)
		}
	}
	want := vp.Canon(e)
	var buf bytes.Buffer
	err := Node(&buf, token.NewFileSet(), e)
	vp.Assert("C12.exprtree.prints", err == nil)
	if err != nil {
		return
	}
	text := buf.String()
	vp.Observe("text", text)
	back, perr := parser.ParseExpr(text)
	vp.Assert("C12.exprtree.parses", perr == nil)
	if perr != nil {
		return
	}
	vp.Assert("C12.exprtree.same", vp.Canon(back) == want)
	// canonical: printing the re-parsed tree gives the same text
	var buf2 bytes.Buffer
	if Node(&buf2, token.NewFileSet(), back) == nil {
		vp.Assert("C12.exprtree.fixedpoint", buf2.String() == text)
	}
}
