//go:build verif

package format

// C12 (kernel): expression printing is lossless — the text produced by the forked
// printer parses back (go/parser) to the same operator tree, for every combination
// of operators (precedence, associativity, token gluing) and operand shapes.

import (
	"bytes"
	"go/ast"
	"go/parser"
	"go/token"

	"github.com/goplus/gogen/internal/vp"
)

var verifBinOps = []token.Token{token.LOR, token.LAND, token.EQL, token.NEQ, token.LSS, token.LEQ, token.GTR, token.GEQ,
	token.ADD, token.SUB, token.OR, token.XOR, token.MUL, token.QUO, token.REM, token.SHL, token.SHR, token.AND, token.AND_NOT}

var verifUnOps = []token.Token{token.SUB, token.ADD, token.NOT, token.XOR, token.AND, token.ARROW}

// verifShape renders the operator tree fully parenthesised (redundant ParenExpr ignored).
func verifShape(e ast.Expr) string {
	switch x := e.(type) {
	case *ast.ParenExpr:
		return verifShape(x.X)
	case *ast.BinaryExpr:
		return "(" + verifShape(x.X) + " " + x.Op.String() + " " + verifShape(x.Y) + ")"
	case *ast.UnaryExpr:
		return "(" + x.Op.String() + verifShape(x.X) + ")"
	case *ast.StarExpr:
		return "(*" + verifShape(x.X) + ")"
	case *ast.Ident:
		return x.Name
	case *ast.CallExpr:
		s := verifShape(x.Fun) + "("
		for i, a := range x.Args {
			if i > 0 {
				s += ","
			}
			s += verifShape(a)
		}
		return s + ")"
	case *ast.IndexExpr:
		return verifShape(x.X) + "[" + verifShape(x.Index) + "]"
	case *ast.SelectorExpr:
		return verifShape(x.X) + "." + x.Sel.Name
	case *ast.BasicLit:
		return x.Value
	}
	return "?"
}

func verifUnOp(name string) token.Token { return verifUnOps[vp.Choose(name, len(verifUnOps))] }

// verifLeaf: operand forms (enumerated by forking): x, op x, *x, op op x, f(x), op *x
func verifLeaf(tag string) ast.Expr {
	id := &ast.Ident{Name: tag}
	switch vp.Choose(tag+".leaf", 6) {
	case 0:
		return id
	case 1:
		return &ast.UnaryExpr{Op: verifUnOp(tag + ".uop"), X: id}
	case 2:
		return &ast.StarExpr{X: id}
	case 3:
		return &ast.UnaryExpr{Op: verifUnOp(tag + ".uop"), X: &ast.UnaryExpr{Op: verifUnOp(tag + ".uop2"), X: id}}
	case 4:
		return &ast.CallExpr{Fun: &ast.Ident{Name: "f"}, Args: []ast.Expr{id}}
	}
	return &ast.UnaryExpr{Op: verifUnOp(tag + ".uop"), X: &ast.StarExpr{X: id}}
}

func verifSmallLeaf(tag string) ast.Expr {
	id := &ast.Ident{Name: tag}
	switch vp.Choose(tag+".leaf", 4) {
	case 1:
		return &ast.UnaryExpr{Op: token.SUB, X: id}
	case 2:
		return &ast.StarExpr{X: id}
	case 3:
		return &ast.UnaryExpr{Op: token.ARROW, X: id}
	}
	return id
}

func verifRoundTrip(tag string, e ast.Expr) {
	want := verifShape(e)
	var buf bytes.Buffer
	err := Node(&buf, token.NewFileSet(), e)
	vp.Assert("C12."+tag+".printed", err == nil)
	if err != nil {
		return
	}
	text := buf.String()
	vp.Observe("text", text)
	back, perr := parser.ParseExpr(text)
	vp.Assert("C12."+tag+".parses", perr == nil)
	if perr != nil {
		return
	}
	got := verifShape(back)
	vp.Assert("C12."+tag+".sametree", got == want)
	vp.Cover("ALL.c12."+tag, true)
}

func verifOp(name string) token.Token { return verifBinOps[vp.Choose(name, len(verifBinOps))] }

// two binary operators in both association shapes, leaves of every operand form
func VerifH_C12_binary2() {
	var a, b ast.Expr = &ast.Ident{Name: "a"}, &ast.Ident{Name: "b"}
	c := &ast.Ident{Name: "c"}
	if vp.Thorough() {
		a, b = verifSmallLeaf("a"), verifSmallLeaf("b")
	} else {
		b = verifSmallLeaf("b")
	}
	op1, op2 := verifOp("op1"), verifOp("op2")
	var e ast.Expr
	if vp.Choose("shape", 2) == 0 {
		e = &ast.BinaryExpr{X: &ast.BinaryExpr{X: a, Op: op1, Y: b}, Op: op2, Y: c}
	} else {
		e = &ast.BinaryExpr{X: a, Op: op1, Y: &ast.BinaryExpr{X: b, Op: op2, Y: c}}
	}
	verifRoundTrip("binary2", e)
}

// three binary operators in all five shapes, identifier leaves (thorough)
func VerifH_C12_binary3() {
	id := func(n string) ast.Expr { return &ast.Ident{Name: n} }
	bin := func(x ast.Expr, op token.Token, y ast.Expr) ast.Expr { return &ast.BinaryExpr{X: x, Op: op, Y: y} }
	o1, o2, o3 := verifOp("op1"), verifOp("op2"), verifOp("op3")
	a, b, c, d := id("a"), id("b"), id("c"), id("d")
	var e ast.Expr
	switch vp.Choose("shape", 5) {
	case 0:
		e = bin(bin(bin(a, o1, b), o2, c), o3, d)
	case 1:
		e = bin(bin(a, o1, bin(b, o2, c)), o3, d)
	case 2:
		e = bin(bin(a, o1, b), o2, bin(c, o3, d))
	case 3:
		e = bin(a, o1, bin(bin(b, o2, c), o3, d))
	default:
		e = bin(a, o1, bin(b, o2, bin(c, o3, d)))
	}
	verifRoundTrip("binary3", e)
}

// unary operator chains and a binary operator next to unary operands (token gluing: - -x, x - -y, &^, <-)
func VerifH_C12_unary() {
	var x, y ast.Expr = &ast.Ident{Name: "x"}, &ast.Ident{Name: "y"}
	switch vp.Choose("side", 3) {
	case 0:
		x = verifLeaf("x")
	case 1:
		y = verifLeaf("y")
	default:
		x, y = verifSmallLeaf("x"), verifSmallLeaf("y")
	}
	op := verifOp("op")
	var e ast.Expr = &ast.BinaryExpr{X: x, Op: op, Y: y}
	if vp.Thorough() && vp.Choose("wrap", 2) == 1 {
		e = &ast.UnaryExpr{Op: verifUnOp("outer"), X: &ast.ParenExpr{X: e}}
	}
	verifRoundTrip("unary", e)
}

// ---------------------------------------------------------------------------
// type expressions: channel directions at every nesting level survive printing

func verifTypeShape(e ast.Expr) string {
	switch x := e.(type) {
	case *ast.ParenExpr:
		return verifTypeShape(x.X)
	case *ast.ChanType:
		d := "chan"
		switch x.Dir {
		case ast.SEND:
			d = "chan<-"
		case ast.RECV:
			d = "<-chan"
		}
		return d + "(" + verifTypeShape(x.Value) + ")"
	case *ast.ArrayType:
		if x.Len == nil {
			return "[](" + verifTypeShape(x.Elt) + ")"
		}
		return "[" + verifShape(x.Len) + "](" + verifTypeShape(x.Elt) + ")"
	case *ast.MapType:
		return "map[" + verifTypeShape(x.Key) + "](" + verifTypeShape(x.Value) + ")"
	case *ast.StarExpr:
		return "*(" + verifTypeShape(x.X) + ")"
	case *ast.FuncType:
		s := "func("
		if x.Params != nil {
			for _, f := range x.Params.List {
				s += verifTypeShape(f.Type) + ","
			}
		}
		s += ")("
		if x.Results != nil {
			for _, f := range x.Results.List {
				s += verifTypeShape(f.Type) + ","
			}
		}
		return s + ")"
	case *ast.Ident:
		return x.Name
	case *ast.CallExpr:
		return "conv[" + verifTypeShape(x.Fun) + "](" + verifShape(x.Args[0]) + ")"
	case *ast.Ellipsis:
		return "..." + verifTypeShape(x.Elt)
	}
	return "?"
}

var verifDirs = []ast.ChanDir{ast.SEND | ast.RECV, ast.SEND, ast.RECV}

var verifRaw, verifNeedParen bool

// verifChan builds a channel type; like the builder it parenthesises a receive-only element of a
// bidirectional channel, unless the raw variant (a tree no parser or builder produces) is explored.
func verifChan(name string, elem ast.Expr) ast.Expr {
	d := verifDirs[vp.Choose(name, 3)]
	if c, ok := elem.(*ast.ChanType); ok && c.Dir == ast.RECV && d == ast.SEND|ast.RECV {
		verifNeedParen = true
		if !verifRaw {
			elem = &ast.ParenExpr{X: elem}
		}
	}
	return &ast.ChanType{Dir: d, Value: elem}
}

func VerifH_C12_types() {
	var e ast.Expr = &ast.Ident{Name: "int"}
	verifRaw, verifNeedParen = vp.Choose("raw", 2) == 1, false
	field := func(t ast.Expr) *ast.FieldList { return &ast.FieldList{List: []*ast.Field{{Type: t}}} }
	switch vp.Choose("form", 8) {
	case 0: // chan of chan of chan
		e = verifChan("d1", verifChan("d2", verifChan("d3", e)))
	case 1: // chan of func returning chan
		e = verifChan("d1", &ast.FuncType{Params: field(verifChan("d2", e)), Results: field(verifChan("d3", e))})
	case 2:
		e = &ast.ArrayType{Elt: verifChan("d1", &ast.StarExpr{X: verifChan("d2", e)})}
	case 3:
		e = &ast.MapType{Key: verifChan("d1", e), Value: verifChan("d2", verifChan("d3", e))}
	case 4: // func returning func returning chan
		e = &ast.FuncType{Params: &ast.FieldList{}, Results: field(&ast.FuncType{Params: &ast.FieldList{}, Results: field(verifChan("d1", e))})}
	case 5: // conversion to a channel / pointer type, parenthesised as the builder emits it
		e = &ast.CallExpr{Fun: &ast.ParenExpr{X: verifChan("d1", verifChan("d2", e))}, Args: []ast.Expr{&ast.Ident{Name: "x"}}}
	case 6:
		e = &ast.CallExpr{Fun: &ast.ParenExpr{X: &ast.StarExpr{X: verifChan("d1", e)}}, Args: []ast.Expr{&ast.Ident{Name: "x"}}}
	case 7: // variadic parameter of channel type
		e = &ast.FuncType{Params: field(&ast.Ellipsis{Elt: verifChan("d1", verifChan("d2", e))})}
	}
	want := verifTypeShape(e)
	raw, need := 0, 0
	if verifRaw {
		raw = 1
	}
	if verifNeedParen {
		need = 1
	}
	vp.Fact("raw", raw)
	vp.Fact("needparen", need)
	var buf bytes.Buffer
	err := Node(&buf, token.NewFileSet(), e)
	vp.Assert("C12.types.printed", err == nil)
	if err != nil {
		return
	}
	text := buf.String()
	vp.Observe("text", text)
	back, perr := parser.ParseExpr(text)
	vp.Assert("C12.types.parses", perr == nil)
	if perr != nil {
		return
	}
	vp.Assert("C12.types.sametype", verifTypeShape(back) == want)
}
