//go:build verif

package typeutil

// C19: the type-keyed map behaves as a map over type identity.

import (
	"go/token"
	"go/types"

	"github.com/goplus/gogen/internal/vp"
)

const verifNKeys = 4

// verifRealKeys realises an identity/collision structure with real types (native replay):
// keys of one class are distinct objects of one structural type; classes of one hash group
// get types whose real hashes collide: [3]int, []int8 and [0]int16 all hash to 9055.
func verifRealKeys(cls, grp [verifNKeys]int) (keys [verifNKeys]types.Type, ok bool) {
	colliding := []func() types.Type{
		func() types.Type { return types.NewArray(types.Typ[types.Int], 3) },
		func() types.Type { return types.NewSlice(types.Typ[types.Int8]) },
		func() types.Type { return types.NewArray(types.Typ[types.Int16], 0) },
	}
	others := []func() types.Type{
		func() types.Type { return types.NewPointer(types.Typ[types.String]) },
		func() types.Type { return types.NewSlice(types.Typ[types.Bool]) },
		func() types.Type { return types.NewMap(types.Typ[types.Int], types.Typ[types.Int]) },
		func() types.Type { return types.NewChan(types.SendRecv, types.Typ[types.Int]) },
	}
	// hash groups with more than one class use the colliding pool (only one such group is realisable)
	grpClasses := map[int][]int{}
	seen := map[int]bool{}
	for i := 0; i < verifNKeys; i++ {
		c := cls[i]
		if !seen[c] {
			seen[c] = true
			grpClasses[grp[c]] = append(grpClasses[grp[c]], c)
		}
	}
	mk := map[int]func() types.Type{}
	usedColl, usedOther, multi := 0, 0, 0
	for _, cs := range grpClasses {
		if len(cs) > 1 {
			multi++
			if multi > 1 || len(cs) > len(colliding) {
				return keys, false
			}
			for _, c := range cs {
				mk[c] = colliding[usedColl]
				usedColl++
			}
		}
	}
	for _, cs := range grpClasses {
		if len(cs) == 1 {
			mk[cs[0]] = others[usedOther]
			usedOther++
		}
	}
	for i := 0; i < verifNKeys; i++ {
		keys[i] = mk[cls[i]]()
	}
	return keys, true
}

func VerifH_C19_map() {
	// symbolic structure: class of each key (restricted growth) and hash group of each class
	var cls, grp [verifNKeys]int
	for i := 1; i < verifNKeys; i++ {
		cls[i] = vp.Int("cls"+string(rune('0'+i)), 0, i)
	}
	// restricted growth: a class id is at most one more than the maximum before it
	vp.Assume(cls[2] <= cls[1]+1)
	m3 := cls[1]
	if cls[2] > m3 {
		m3 = cls[2]
	}
	vp.Assume(cls[3] <= m3+1)
	for c := 0; c < verifNKeys; c++ {
		grp[c] = vp.Int("grp"+string(rune('0'+c)), 0, 2)
	}
	var keys [verifNKeys]types.Type
	if vp.Symbolic() {
		for i := range keys {
			keys[i] = types.NewNamed(types.NewTypeName(token.NoPos, nil, "K"+string(rune('0'+i)), nil), types.Typ[types.Int], nil)
		}
		idx := func(t types.Type) int {
			for i, k := range keys {
				if k == t {
					return i
				}
			}
			panic("unknown key")
		}
		vp.Stub("github.com/goplus/gogen/typeutil.hash", func(t types.Type) uint32 {
			return uint32(1000 + grpOf(grp, cls[idx(t)]))
		})
		vp.Stub("go/types.Identical", func(a, b types.Type) bool { return cls[idx(a)] == cls[idx(b)] })
	} else {
		var ok bool
		keys, ok = verifRealKeys(cls, grp)
		vp.Assume(ok)
	}
	m := new(Map)
	// three key objects in both tiers; the thorough tier explores one more operation (tables over
	// four keys are covered by the inductive step harness)
	nkeys := 3
	vp.Assume(cls[3] == 0 || nkeys == verifNKeys)
	// reference: value and presence per key (shared by all keys of its class)
	var present [verifNKeys]bool
	var val [verifNKeys]int
	nops := 3
	if vp.Thorough() {
		nops = 4
	}
	for step := 0; step < nops; step++ {
		st := string(rune('a' + step))
		op := vp.Choose("op"+st, 3)
		k := vp.Choose("key"+st, nkeys)
		switch op {
		case 0: // Set
			if m == nil {
				continue
			}
			v := 100 + step
			prev := m.Set(keys[k], v)
			if present[k] {
				vp.Assert("C19.set.prev", prev == val[k])
			} else {
				vp.Assert("C19.set.noprev", prev == nil)
			}
			for i := 0; i < verifNKeys; i++ {
				if cls[i] == cls[k] {
					present[i], val[i] = true, v
				}
			}
		case 1: // Delete
			found := m.Delete(keys[k])
			vp.Assert("C19.delete.found", found == present[k])
			for i := 0; i < verifNKeys; i++ {
				if cls[i] == cls[k] {
					present[i] = false
				}
			}
		case 2: // At
			got := m.At(keys[k])
			if present[k] {
				vp.Assert("C19.at.value", got == val[k])
			} else {
				vp.Assert("C19.at.absent", got == nil)
			}
		}
		// after every step: Len and the key listing agree with the reference
		n := 0
		for i := 0; i < verifNKeys; i++ {
			first := true
			for j := 0; j < i; j++ {
				if cls[j] == cls[i] {
					first = false
				}
			}
			if first && present[i] {
				n++
			}
		}
		vp.Assert("C19.len", m.Len() == n)
		if m != nil {
			listed := m.Keys()
			vp.Assert("C19.keys.len", len(listed) == n)
			cnt := 0
			m.Iterate(func(key types.Type, value any) {
				cnt++
				for i := 0; i < verifNKeys; i++ {
					if keys[i] == key {
						vp.Assert("C19.iterate.entry", present[i] && value == val[i])
					}
				}
			})
			vp.Assert("C19.iterate.count", cnt == n)
		}
	}
	vp.Cover("ALL.c19.end", true)
}

func grpOf(grp [verifNKeys]int, c int) int {
	return grp[c]
}

// A nil *Map is a valid empty map.
func VerifH_C19_nilmap() {
	var m *Map
	k := types.NewSlice(types.Typ[types.Int])
	vp.Assert("C19.nil.len", m.Len() == 0)
	vp.Assert("C19.nil.at", m.At(k) == nil)
	vp.Assert("C19.nil.delete", !m.Delete(k))
	n := 0
	m.Iterate(func(types.Type, any) { n++ })
	vp.Assert("C19.nil.iterate", n == 0)
	vp.Assert("C19.nil.keys", len(m.Keys()) == 0)
}

// ---------------------------------------------------------------------------
// M2: identical types hash equally (addresses of type names are arbitrary)

func verifPkgT() *types.Package { return types.NewPackage("example.com/p", "p") }

func verifNamed(pkg *types.Package, name string, under types.Type) *types.Named {
	return types.NewNamed(types.NewTypeName(token.NoPos, pkg, name, nil), under, nil)
}

func verifGenericSig(pkg *types.Package, tpName string, variadic bool) *types.Signature {
	tn := types.NewTypeName(token.NoPos, pkg, tpName, nil)
	tp := types.NewTypeParam(tn, types.NewInterfaceType(nil, nil))
	var params *types.Tuple
	if variadic {
		params = types.NewTuple(types.NewVar(token.NoPos, pkg, "a", types.NewSlice(tp)))
	} else {
		params = types.NewTuple(types.NewVar(token.NoPos, pkg, "a", tp), types.NewVar(token.NoPos, pkg, "b", types.NewPointer(tp)))
	}
	results := types.NewTuple(types.NewVar(token.NoPos, pkg, "", tp))
	return types.NewSignatureType(nil, nil, []*types.TypeParam{tp}, params, results, variadic)
}

func verifIface(pkg *types.Package, names []string, embeds []types.Type) *types.Interface {
	var ms []*types.Func
	for _, n := range names {
		sig := types.NewSignatureType(nil, nil, nil, types.NewTuple(types.NewVar(token.NoPos, pkg, "", types.Typ[types.Int+types.BasicKind(n[0]%5)])), nil, false)
		ms = append(ms, types.NewFunc(token.NoPos, pkg, n, sig))
	}
	it := types.NewInterfaceType(ms, embeds)
	it.Complete()
	return it
}

// verifIdenticalPair builds two distinct type objects that Go considers identical.
func verifIdenticalPair(shape int, pkg *types.Package, base *types.Named) (a, b types.Type) {
	elem := func(i int) types.Type {
		if i == 0 {
			return base
		}
		return types.Typ[types.String]
	}
	switch shape {
	case 0: // structs with tags and embedded field
		mk := func() types.Type {
			fs := []*types.Var{types.NewField(token.NoPos, pkg, "X", elem(0), false), types.NewField(token.NoPos, pkg, "N", base, true), types.NewField(token.NoPos, pkg, "y", elem(1), false)}
			return types.NewStruct(fs, []string{`json:"x"`, "", ""})
		}
		return mk(), mk()
	case 1: // alias vs target
		return types.NewAlias(types.NewTypeName(token.NoPos, pkg, "A", nil), base), base
	case 2: // generic signatures with renamed type parameters
		return verifGenericSig(pkg, "T", false), verifGenericSig(pkg, "U", false)
	case 3: // variadic generic signatures
		return verifGenericSig(pkg, "T", true), verifGenericSig(pkg, "E", true)
	case 4: // interfaces with permuted methods
		return verifIface(pkg, []string{"M", "N", "o"}, nil), verifIface(pkg, []string{"M", "N", "o"}, nil)
	case 5: // unions with permuted terms inside constraint interfaces
		u1 := types.NewUnion([]*types.Term{types.NewTerm(true, types.Typ[types.Int]), types.NewTerm(false, types.Typ[types.String]), types.NewTerm(false, base)})
		u2 := types.NewUnion([]*types.Term{types.NewTerm(false, base), types.NewTerm(false, types.Typ[types.String]), types.NewTerm(true, types.Typ[types.Int])})
		return verifIface(pkg, nil, []types.Type{u1}), verifIface(pkg, nil, []types.Type{u2})
	case 6: // instantiations of one generic named type
		tn := types.NewTypeName(token.NoPos, pkg, "G", nil)
		g := types.NewNamed(tn, nil, nil)
		tp := types.NewTypeParam(types.NewTypeName(token.NoPos, pkg, "T", nil), types.NewInterfaceType(nil, nil))
		g.SetTypeParams([]*types.TypeParam{tp})
		g.SetUnderlying(types.NewStruct([]*types.Var{types.NewField(token.NoPos, pkg, "v", tp, false)}, nil))
		i1, _ := types.Instantiate(nil, g, []types.Type{base}, false)
		i2, _ := types.Instantiate(nil, g, []types.Type{base}, false)
		return i1, i2
	case 7: // composites over a named element
		mk := func() types.Type {
			return types.NewMap(types.NewPointer(base), types.NewChan(types.RecvOnly, types.NewArray(types.NewSlice(base), 7)))
		}
		return mk(), mk()
	case 8: // function types with tuples
		mk := func() types.Type {
			ps := types.NewTuple(types.NewVar(token.NoPos, pkg, "a", base), types.NewVar(token.NoPos, pkg, "b", types.NewSlice(types.Typ[types.Byte])))
			rs := types.NewTuple(types.NewVar(token.NoPos, pkg, "", types.Universe.Lookup("error").Type()))
			return types.NewSignatureType(nil, nil, nil, ps, rs, true)
		}
		return mk(), mk()
	case 9: // interface embedding a named interface vs. the flattened method set
		inner := verifNamed(pkg, "Inner", verifIface(pkg, []string{"M"}, nil))
		return verifIface(pkg, []string{"M", "Z"}, nil), verifIface(pkg, []string{"Z"}, []types.Type{inner})
	}
	switch shape {
	case 11: // generic signature whose second constraint mentions the first type parameter: func[T any, S ~[]T](S)
		mk := func(n1, n2 string) types.Type {
			t := types.NewTypeParam(types.NewTypeName(token.NoPos, pkg, n1, nil), types.NewInterfaceType(nil, nil))
			u := types.NewUnion([]*types.Term{types.NewTerm(true, types.NewSlice(t))})
			ci := types.NewInterfaceType(nil, []types.Type{u})
			ci.Complete()
			s := types.NewTypeParam(types.NewTypeName(token.NoPos, pkg, n2, nil), ci)
			return types.NewSignatureType(nil, nil, []*types.TypeParam{t, s}, types.NewTuple(types.NewVar(token.NoPos, pkg, "x", s)), nil, false)
		}
		return mk("T", "S"), mk("U", "R")
	case 12: // a constraint with a method over another type parameter: func[K comparable, M interface{ Get(K) bool }](M)
		mk := func(n1, n2 string) types.Type {
			k := types.NewTypeParam(types.NewTypeName(token.NoPos, pkg, n1, nil), types.Universe.Lookup("comparable").Type())
			get := types.NewFunc(token.NoPos, pkg, "Get", types.NewSignatureType(nil, nil, nil, types.NewTuple(types.NewVar(token.NoPos, pkg, "", k)), types.NewTuple(types.NewVar(token.NoPos, pkg, "", types.Typ[types.Bool])), false))
			ci := types.NewInterfaceType([]*types.Func{get}, nil)
			ci.Complete()
			m := types.NewTypeParam(types.NewTypeName(token.NoPos, pkg, n2, nil), ci)
			return types.NewSignatureType(nil, nil, []*types.TypeParam{k, m}, types.NewTuple(types.NewVar(token.NoPos, pkg, "x", m)), nil, false)
		}
		return mk("K", "M"), mk("Q", "W")
	case 13: // a self-referential constraint: func[T interface{ Less(T) bool }](T)
		mk := func(n string) types.Type {
			t := types.NewTypeParam(types.NewTypeName(token.NoPos, pkg, n, nil), nil)
			less := types.NewFunc(token.NoPos, pkg, "Less", types.NewSignatureType(nil, nil, nil, types.NewTuple(types.NewVar(token.NoPos, pkg, "", t)), types.NewTuple(types.NewVar(token.NoPos, pkg, "", types.Typ[types.Bool])), false))
			ci := types.NewInterfaceType([]*types.Func{less}, nil)
			ci.Complete()
			t.SetConstraint(ci)
			return types.NewSignatureType(nil, nil, []*types.TypeParam{t}, types.NewTuple(types.NewVar(token.NoPos, pkg, "x", t)), nil, false)
		}
		return mk("T"), mk("E")
	}
	return types.NewTuple(types.NewVar(token.NoPos, pkg, "a", base)), types.NewTuple(types.NewVar(token.NoPos, nil, "zz", base))
}

func VerifH_C19_hash() {
	vp.SymbolicAddrs(true) // the addresses of type-name objects are arbitrary
	pkg := verifPkgT()
	base := verifNamed(pkg, "N", types.Typ[types.Int])
	shape := vp.Choose("shape", 14)
	a, b := verifIdenticalPair(shape, pkg, base)
	vp.Assume(types.Identical(a, b)) // the pair is identical by construction; go/types is the arbiter
	ha, hb := MakeHasher().Hash(a), MakeHasher().Hash(b)
	vp.Assert("C19.hash.identical", ha == hb)
	// the Map sees them as one key
	m := new(Map)
	m.Set(a, 1)
	m.Set(b, 2)
	vp.Assert("C19.hash.onekey", m.Len() == 1 && m.At(a) == 2)
	vp.Cover("ALL.c19.hash", true)
}

// ---------------------------------------------------------------------------
// One inductive step: from an arbitrary table that satisfies the representation invariant
// (every live entry sits in the bucket of its hash, no two live entries are identical, length
// counts the live entries; tombstones anywhere), one Set/Delete/At with an arbitrary key returns
// what a map over type identity returns and re-establishes the invariant. Histories of any
// length follow by induction for tables within the stated bucket sizes.
func VerifH_C19_step() {
	nkeys := 3
	if vp.Thorough() {
		nkeys = verifNKeys
	}
	var cls, grp [verifNKeys]int
	for i := 1; i < nkeys; i++ {
		cls[i] = vp.Choose("cls"+string(rune('0'+i)), i+1)
	}
	m2 := cls[1]
	if cls[2] > m2 {
		vp.Assume(cls[2] <= m2+1)
		m2 = cls[2]
	}
	vp.Assume(cls[3] <= m2+1)
	for c := 0; c <= m2 || (nkeys == verifNKeys && c <= cls[3]); c++ {
		grp[c] = vp.Choose("grp"+string(rune('0'+c)), 2)
	}
	var keys [verifNKeys]types.Type
	hashOf := func(i int) uint32 { return hash(keys[i]) }
	if vp.Symbolic() {
		for i := range keys {
			keys[i] = types.NewNamed(types.NewTypeName(token.NoPos, nil, "K"+string(rune('0'+i)), nil), types.Typ[types.Int], nil)
		}
		idx := func(t types.Type) int {
			for i, k := range keys {
				if k == t {
					return i
				}
			}
			panic("unknown key")
		}
		vp.Stub("github.com/goplus/gogen/typeutil.hash", func(t types.Type) uint32 {
			return uint32(1000 + grp[cls[idx(t)]])
		})
		vp.Stub("go/types.Identical", func(a, b types.Type) bool { return cls[idx(a)] == cls[idx(b)] })
	} else {
		var ok bool
		keys, ok = verifRealKeys(cls, grp)
		vp.Assume(ok)
	}
	// pre-state
	maxSlots := [2]int{3, 1}
	if vp.Thorough() {
		maxSlots = [2]int{4, 2}
	}
	m := new(Map)
	var present [verifNKeys]bool // per class
	var val [verifNKeys]int
	live := 0
	for g := 0; g < 2; g++ {
		rep := -1
		for i := 0; i < nkeys; i++ {
			if grp[cls[i]] == g {
				rep = i
				break
			}
		}
		if rep < 0 {
			continue // no key hashes into this bucket: unreachable by any operation
		}
		n := vp.Choose("len"+string(rune('0'+g)), maxSlots[g]+1)
		tableAbsent := false
		if n == 0 && g == 0 {
			tableAbsent = vp.Choose("nobucket", 2) == 1
		}
		if tableAbsent {
			continue
		}
		bucket := make([]entry, n)
		for s := 0; s < n; s++ {
			c := vp.Choose("slot"+string(rune('0'+g))+string(rune('0'+s)), nkeys+1)
			if c == 0 {
				continue // tombstone
			}
			i := c - 1
			vp.Assume(grp[cls[i]] == g && !present[cls[i]])
			present[cls[i]] = true
			val[cls[i]] = 10*g + s + 1
			bucket[s] = entry{keys[i], val[cls[i]]}
			live++
		}
		if m.table == nil {
			m.table = map[uint32][]entry{}
		}
		m.table[hashOf(rep)] = bucket
	}
	m.length = live
	// one operation
	op := vp.Choose("op", 3)
	k := vp.Choose("key", nkeys)
	kc := cls[k]
	switch op {
	case 0:
		prev := m.Set(keys[k], 99)
		if present[kc] {
			vp.Assert("C19.step.set.prev", prev == val[kc])
		} else {
			vp.Assert("C19.step.set.noprev", prev == nil)
			live++
		}
		present[kc], val[kc] = true, 99
	case 1:
		found := m.Delete(keys[k])
		vp.Assert("C19.step.delete.found", found == present[kc])
		if present[kc] {
			live--
		}
		present[kc] = false
	case 2:
		got := m.At(keys[k])
		if present[kc] {
			vp.Assert("C19.step.at.value", got == val[kc])
		} else {
			vp.Assert("C19.step.at.absent", got == nil)
		}
	}
	// post-state: functional content and the invariant
	vp.Assert("C19.step.len", m.Len() == live)
	var seen [verifNKeys]bool
	cnt, inv := 0, true
	for h, bucket := range m.table {
		for _, e := range bucket {
			if e.key == nil {
				continue
			}
			cnt++
			for i := 0; i < nkeys; i++ {
				if keys[i] == e.key {
					c := cls[i]
					if seen[c] || hashOf(i) != h || !present[c] || e.value != val[c] {
						inv = false
					}
					seen[c] = true
				}
			}
		}
	}
	vp.Assert("C19.step.invariant", inv && cnt == live)
	for i := 0; i < nkeys; i++ {
		got := m.At(keys[i])
		if present[cls[i]] {
			vp.Assert("C19.step.at.after", got == val[cls[i]])
		} else {
			vp.Assert("C19.step.at.after.absent", got == nil)
		}
	}
	vp.Assert("C19.step.keys", len(m.Keys()) == live)
	vp.Cover("ALL.c19.step.end", true)
}
