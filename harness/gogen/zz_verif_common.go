//go:build verif

package gogen

// Shared harness helpers: package construction, operand domain, spec formulas
// (reference "what Go says"), and the native go/types cross-check of those formulas.

import (
	"fmt"
	"go/ast"
	"go/constant"
	"go/importer"
	"go/parser"
	"go/token"
	"go/types"
	"math/big"
	"strings"

	"github.com/goplus/gogen/internal/vp"
)

type verifImporter struct{}

func (verifImporter) Import(path string) (*types.Package, error) {
	return nil, verifErr("no imports in harness")
}

type verifErr string

func (e verifErr) Error() string { return string(e) }

// verifNewPkg builds a default-configured package without touching the file system.
// Errors delivered to HandleErr are turned into panics so that "rejected" is uniform.
func verifNewPkg() *Package {
	conf := &Config{Importer: verifImporter{}, HandleErr: func(err error) { panic(err) }}
	return NewPackage("", "main", conf)
}

// ---------------------------------------------------------------------------
// operand domain

type verifOperand struct {
	typed bool
	kind  types.BasicKind // typed: Int..Uintptr, Bool, String; untyped: UntypedBool..UntypedString
	val   constant.Value
}

var verifIntKinds = []types.BasicKind{types.Int, types.Int8, types.Int16, types.Int32, types.Int64,
	types.Uint, types.Uint8, types.Uint16, types.Uint32, types.Uint64, types.Uintptr}

// quick tier uses a representative subset of kinds (stated bound), thorough all
var verifKindsQuick = []types.BasicKind{types.UntypedInt, types.UntypedRune, types.UntypedFloat, types.UntypedBool, types.UntypedString,
	types.Int8, types.Uint8, types.Int, types.Uint64, types.Bool, types.String}
var verifKindsAll = []types.BasicKind{types.UntypedInt, types.UntypedRune, types.UntypedFloat, types.UntypedBool, types.UntypedString,
	types.Int, types.Int8, types.Int16, types.Int32, types.Int64,
	types.Uint, types.Uint8, types.Uint16, types.Uint32, types.Uint64, types.Uintptr, types.Bool, types.String}

func verifKinds() []types.BasicKind {
	if vp.Thorough() {
		return verifKindsAll
	}
	return verifKindsQuick
}

var verifNumKindsQuick = []types.BasicKind{types.UntypedInt, types.UntypedRune, types.UntypedFloat, types.Int8, types.Uint8, types.Int32, types.Uint64}
var verifNumKindsAll = []types.BasicKind{types.UntypedInt, types.UntypedRune, types.UntypedFloat,
	types.Int, types.Int8, types.Int16, types.Int32, types.Int64,
	types.Uint, types.Uint8, types.Uint16, types.Uint32, types.Uint64, types.Uintptr}

func verifNumKinds() []types.BasicKind {
	if vp.Thorough() {
		return verifNumKindsAll
	}
	return verifNumKindsQuick
}

func verifIsUntypedKind(k types.BasicKind) bool { return k >= types.UntypedBool && k <= types.UntypedNil }

func verifIsIntKind(k types.BasicKind) bool {
	return (k >= types.Int && k <= types.Uintptr) || k == types.UntypedInt || k == types.UntypedRune
}

func verifIsNumKind(k types.BasicKind) bool {
	return verifIsIntKind(k) || k == types.UntypedFloat || k == types.UntypedComplex || (k >= types.Float32 && k <= types.Complex128)
}

func verifIsBoolKind(k types.BasicKind) bool { return k == types.Bool || k == types.UntypedBool }
func verifIsStrKind(k types.BasicKind) bool  { return k == types.String || k == types.UntypedString }

func verifPow2(n uint) constant.Value { return constant.Shift(constant.MakeInt64(1), token.SHL, n) }
func verifNeg(v constant.Value) constant.Value {
	return constant.UnaryOp(token.SUB, v, 0)
}
func verifDec(v constant.Value) constant.Value {
	return constant.BinaryOp(v, token.SUB, constant.MakeInt64(1))
}

// verifIntRange is the specification's value range of an integer kind on the 64-bit target.
func verifIntRange(k types.BasicKind) (lo, hi constant.Value) {
	zero := constant.MakeInt64(0)
	switch k {
	case types.Int8:
		return verifNeg(verifPow2(7)), verifDec(verifPow2(7))
	case types.Int16:
		return verifNeg(verifPow2(15)), verifDec(verifPow2(15))
	case types.Int32:
		return verifNeg(verifPow2(31)), verifDec(verifPow2(31))
	case types.Int64, types.Int:
		return verifNeg(verifPow2(63)), verifDec(verifPow2(63))
	case types.Uint8:
		return zero, verifDec(verifPow2(8))
	case types.Uint16:
		return zero, verifDec(verifPow2(16))
	case types.Uint32:
		return zero, verifDec(verifPow2(32))
	}
	return zero, verifDec(verifPow2(64))
}

func verifInRange(v constant.Value, k types.BasicKind) bool {
	lo, hi := verifIntRange(k)
	return constant.Compare(v, token.GEQ, lo) && constant.Compare(v, token.LEQ, hi)
}

// verifUntypedIntOK: go/types limits untyped integer constants to 512 bits.
func verifUntypedIntOK(v constant.Value) bool {
	lim := verifPow2(512)
	return constant.Compare(v, token.LSS, lim) && constant.Compare(v, token.GTR, verifNeg(lim))
}

// verifRepresentable: can constant v (any numeric/bool/string kind) be a value of basic kind k?
func verifRepresentable(v constant.Value, k types.BasicKind) bool {
	switch {
	case k >= types.Int && k <= types.Uintptr:
		if v.Kind() != constant.Int && v.Kind() != constant.Float && v.Kind() != constant.Complex {
			return false
		}
		iv := constant.ToInt(v)
		if iv.Kind() != constant.Int {
			return false // non-integral: "truncated"
		}
		return verifInRange(iv, k)
	case k == types.UntypedInt || k == types.UntypedRune:
		if v.Kind() != constant.Int && v.Kind() != constant.Float && v.Kind() != constant.Complex {
			return false
		}
		iv := constant.ToInt(v)
		return iv.Kind() == constant.Int && verifUntypedIntOK(iv)
	case k == types.UntypedFloat:
		if v.Kind() == constant.Int || v.Kind() == constant.Float {
			return true
		}
		return v.Kind() == constant.Complex && constant.Sign(constant.Imag(v)) == 0
	case k == types.UntypedComplex:
		return v.Kind() == constant.Int || v.Kind() == constant.Float || v.Kind() == constant.Complex
	case k == types.Bool || k == types.UntypedBool:
		return v.Kind() == constant.Bool
	case k == types.String || k == types.UntypedString:
		return v.Kind() == constant.String
	}
	return false
}

// verifChooseOperand forks over the kind and returns an operand with an arbitrary valid value of that kind.
func verifChooseOperand(name string, kinds []types.BasicKind) verifOperand {
	k := kinds[vp.Choose(name+".k", len(kinds))]
	return verifOperandOfKind(name, k)
}

func verifOperandOfKind(name string, k types.BasicKind) verifOperand {
	o := verifOperand{typed: !verifIsUntypedKind(k), kind: k}
	switch {
	case k == types.Uint64 || k == types.Uint || k == types.Uintptr:
		o.val = constant.MakeUint64(vp.Uint64(name)) // a typed constant operand always holds a representable value
	case k == types.Uint8 || k == types.Uint16 || k == types.Uint32:
		_, hi := verifIntRange(k)
		h, _ := constant.Int64Val(hi)
		o.val = constant.MakeInt64(vp.Int64(name, 0, h))
	case k >= types.Int && k <= types.Int64:
		lo, hi := verifIntRange(k)
		l, _ := constant.Int64Val(lo)
		h, _ := constant.Int64Val(hi)
		o.val = constant.MakeInt64(vp.Int64(name, l, h))
	case k == types.UntypedInt, k == types.UntypedRune:
		o.val = vp.ConstInt(name)
		vp.Assume(verifUntypedIntOK(o.val)) // go/types rejects wider untyped integer operands themselves
	case k == types.UntypedFloat:
		o.val = vp.ConstFloat(name) // Float kind, possibly integral
	case k == types.UntypedComplex:
		o.val = vp.ConstComplex(name)
	case k == types.Bool || k == types.UntypedBool:
		o.val = constant.MakeBool(vp.Bool(name))
	case k == types.String || k == types.UntypedString:
		o.val = constant.MakeString(vp.Pick(name, "", "a", "ab"))
	}
	return o
}

// verifElem builds the operand-stack element the builder would hold for this constant operand:
// an identifier naming a declared constant of that type and value.
func verifElem(name string, o verifOperand) *Element {
	return &Element{Val: &ast.Ident{Name: name}, Type: types.Typ[o.kind], CVal: o.val}
}

// ---------------------------------------------------------------------------
// native cross-check of the reference formulas against go/types (replay only)

func verifRatSrc(v constant.Value) string {
	switch x := constant.Val(v).(type) {
	case int64:
		return fmt.Sprintf("(%d)", x)
	case *big.Int:
		return "(" + x.String() + ")"
	case *big.Rat:
		return "(" + x.Num().String() + ".0/" + x.Denom().String() + ")"
	case *big.Float:
		return "(" + x.Text('g', -1) + ")"
	}
	return "0"
}

func verifFloatSrc(v constant.Value) string {
	switch x := constant.Val(v).(type) {
	case int64:
		return fmt.Sprintf("(%d.0)", x)
	case *big.Int:
		return "(" + x.String() + ".0)"
	}
	return verifRatSrc(v)
}

// verifOperandSrc renders an operand as a Go constant expression of exactly that type and value.
func verifOperandSrc(o verifOperand) string {
	switch {
	case o.kind == types.UntypedInt:
		return verifRatSrc(o.val)
	case o.kind == types.UntypedRune:
		return "('\\x00' + " + verifRatSrc(o.val) + ")"
	case o.kind == types.UntypedFloat:
		return verifFloatSrc(constant.ToFloat(o.val))
	case o.kind == types.UntypedComplex:
		return "(" + verifFloatSrc(constant.Real(o.val)) + " + " + verifFloatSrc(constant.Imag(o.val)) + "*1i)"
	case o.kind == types.UntypedBool:
		if constant.BoolVal(o.val) {
			return "(0 == 0)"
		}
		return "(0 != 0)"
	case o.kind == types.UntypedString:
		return fmt.Sprintf("%q", constant.StringVal(o.val))
	case o.kind == types.Bool:
		return fmt.Sprintf("bool(%v)", constant.BoolVal(o.val))
	case o.kind == types.String:
		return fmt.Sprintf("string(%q)", constant.StringVal(o.val))
	}
	return types.Typ[o.kind].Name() + verifRatSrc(o.val)
}

// verifGoConst type-checks `const r = <expr>` with go/types.
func verifGoConst(expr string) (ok bool, typ types.Type, val constant.Value, msg string) {
	src := "package p\nconst r = " + expr + "\n"
	fset := token.NewFileSet()
	f, err := parser.ParseFile(fset, "p.go", src, 0)
	if err != nil {
		return false, nil, nil, "parse: " + err.Error()
	}
	var first string
	conf := types.Config{Importer: importer.Default(), Error: func(e error) {
		if first == "" {
			first = e.Error()
		}
	}}
	pkg, _ := conf.Check("p", fset, []*ast.File{f}, nil)
	if first != "" {
		return false, nil, nil, first
	}
	c, _ := pkg.Scope().Lookup("r").(*types.Const)
	if c == nil {
		return false, nil, nil, "no const"
	}
	return true, c.Type(), c.Val(), ""
}

// verifCrossCheck compares the reference verdict for a constant expression with go/types (native replay only).
func verifCrossCheck(id, expr string, specOK bool, res verifOperand) {
	if vp.Symbolic() {
		return
	}
	ok, typ, val, msg := verifGoConst(expr)
	if ok != specOK {
		vp.Oracle(id, false, fmt.Sprintf("%s: spec ok=%v go/types ok=%v (%s)", expr, specOK, ok, msg))
		return
	}
	if !ok {
		vp.Oracle(id, true, "")
		return
	}
	if !types.Identical(typ, types.Typ[res.kind]) {
		vp.Oracle(id, false, fmt.Sprintf("%s: spec type %v go/types %v", expr, types.Typ[res.kind], typ))
		return
	}
	if !verifConstEq(val, res.val) {
		vp.Oracle(id, false, fmt.Sprintf("%s: spec value %v go/types %v", expr, res.val, val))
		return
	}
	vp.Oracle(id, true, "")
}

// verifConstEq: numeric/bool/string equality across constant kinds.
func verifConstEq(a, b constant.Value) bool {
	if a == nil || b == nil {
		return a == nil && b == nil
	}
	ka, kb := a.Kind(), b.Kind()
	num := func(k constant.Kind) bool { return k == constant.Int || k == constant.Float || k == constant.Complex }
	if num(ka) && num(kb) {
		return constant.Compare(a, token.EQL, b)
	}
	if ka != kb || ka == constant.Unknown {
		return false
	}
	return constant.Compare(a, token.EQL, b)
}

var _ = strings.Contains

// VerifReplayInit runs before native replay: the package's own tests switch debug logging on in their init.
func VerifReplayInit() { SetDebug(0) }

func isBoolType(e *Element) bool { return e.CVal.Kind() == constant.Bool }
func constantBool(e *Element) bool { return constant.BoolVal(e.CVal) }
func verifIsZeroConst(e *Element) bool {
	switch e.CVal.Kind() {
	case constant.String:
		return constant.StringVal(e.CVal) == ""
	case constant.Int, constant.Float, constant.Complex:
		return constant.Sign(e.CVal) == 0
	}
	return false
}
