//go:build verif

package gogen

// Constant operator expressions through the real builder API (C01-K8, C02a, C03-T1, C04).

import (
	"go/ast"
	"go/constant"
	"go/token"
	"go/types"

	"github.com/goplus/gogen/internal/vp"
)

const (
	verifOK = iota
	verifRejMismatch   // mismatched operand types / untyped kinds
	verifRejConvert    // untyped operand not representable in the other operand's type
	verifRejOpUndef    // operator not defined on the operand type
	verifRejDivZero    // division by constant zero
	verifRejOverflow   // typed result not representable in its type
	verifRejBigUntyped // untyped integer result beyond go/types' 512-bit limit
	verifRejShiftCount // invalid shift count
	verifRejShiftLHS   // shifted operand must be integer
)

var verifReasons = [...]string{"ok", "mismatch", "convert", "opundef", "divzero", "overflow", "biguntyped", "shiftcount", "shiftlhs"}

func verifUntypedRank(k types.BasicKind) int {
	switch k {
	case types.UntypedInt:
		return 1
	case types.UntypedRune:
		return 2
	case types.UntypedFloat:
		return 3
	case types.UntypedComplex:
		return 4
	}
	return 0
}

// verifMatch implements go/types' operand matching for binary operations on constants.
func verifMatch(x, y verifOperand) (reason int, kind types.BasicKind, xv, yv constant.Value) {
	xv, yv = x.val, y.val
	switch {
	case x.typed && y.typed:
		if x.kind != y.kind {
			return verifRejMismatch, 0, nil, nil
		}
		return verifOK, x.kind, xv, yv
	case x.typed && !y.typed:
		if !verifUntypedFits(y, x.kind) {
			return verifRejConvert, 0, nil, nil
		}
		return verifOK, x.kind, xv, verifNormalize(yv, x.kind)
	case !x.typed && y.typed:
		if !verifUntypedFits(x, y.kind) {
			return verifRejConvert, 0, nil, nil
		}
		return verifOK, y.kind, verifNormalize(xv, y.kind), yv
	}
	// both untyped
	rx, ry := verifUntypedRank(x.kind), verifUntypedRank(y.kind)
	if rx > 0 && ry > 0 {
		k := x.kind
		if ry > rx {
			k = y.kind
		}
		return verifOK, k, verifNormalize(xv, k), verifNormalize(yv, k)
	}
	if x.kind == y.kind {
		return verifOK, x.kind, xv, yv
	}
	return verifRejMismatch, 0, nil, nil
}

// verifUntypedFits: can the untyped constant operand be converted implicitly to typed kind k?
func verifUntypedFits(o verifOperand, k types.BasicKind) bool {
	switch {
	case verifIsBoolKind(o.kind):
		return k == types.Bool
	case verifIsStrKind(o.kind):
		return k == types.String
	}
	if !verifIsNumKind(k) {
		return false
	}
	return verifRepresentable(o.val, k)
}

// verifNormalize mirrors go/types: values of integer types are Int kind, of float types Float kind.
func verifNormalize(v constant.Value, k types.BasicKind) constant.Value {
	switch {
	case verifIsIntKind(k):
		if iv := constant.ToInt(v); iv.Kind() == constant.Int {
			return iv
		}
	case k == types.UntypedFloat:
		return constant.ToFloat(v)
	case k == types.UntypedComplex:
		return constant.ToComplex(v)
	}
	return v
}

func verifOpDefined(op token.Token, k types.BasicKind) bool {
	switch op {
	case token.ADD:
		return verifIsNumKind(k) || verifIsStrKind(k)
	case token.SUB, token.MUL, token.QUO:
		return verifIsNumKind(k)
	case token.REM, token.AND, token.OR, token.XOR, token.AND_NOT:
		return verifIsIntKind(k)
	case token.LAND, token.LOR:
		return verifIsBoolKind(k)
	case token.EQL, token.NEQ:
		return true
	case token.LSS, token.LEQ, token.GTR, token.GEQ:
		return (verifIsNumKind(k) && k != types.UntypedComplex) || verifIsStrKind(k)
	}
	return false
}

func verifIsCmp(op token.Token) bool {
	switch op {
	case token.EQL, token.NEQ, token.LSS, token.LEQ, token.GTR, token.GEQ:
		return true
	}
	return false
}

// verifSpecBinary: what the Go specification (as implemented by go/types) says about `x op y`
// for constant operands; reason != verifOK means the expression is rejected.
func verifSpecBinary(op token.Token, x, y verifOperand) (reason int, res verifOperand) {
	reason, k, xv, yv := verifMatch(x, y)
	if reason != verifOK {
		return reason, res
	}
	if !verifOpDefined(op, k) {
		return verifRejOpUndef, res
	}
	if verifIsCmp(op) {
		return verifOK, verifOperand{typed: false, kind: types.UntypedBool, val: constant.MakeBool(constant.Compare(xv, op, yv))}
	}
	if (op == token.QUO || op == token.REM) && constant.Sign(yv) == 0 {
		return verifRejDivZero, res
	}
	tok := op
	if op == token.QUO && verifIsIntKind(k) {
		tok = token.QUO_ASSIGN // integer division truncates
	}
	v := constant.BinaryOp(xv, tok, yv)
	res = verifOperand{typed: !verifIsUntypedKind(k), kind: k, val: v}
	switch {
	case k >= types.Int && k <= types.Uintptr:
		if !verifInRange(v, k) {
			return verifRejOverflow, res
		}
	case k == types.UntypedInt || k == types.UntypedRune:
		if !verifUntypedIntOK(v) {
			return verifRejBigUntyped, res
		}
	}
	return verifOK, res
}

var verifBinOps = []token.Token{token.ADD, token.SUB, token.MUL, token.QUO, token.REM,
	token.AND, token.OR, token.XOR, token.AND_NOT, token.LAND, token.LOR,
	token.EQL, token.NEQ, token.LSS, token.LEQ, token.GTR, token.GEQ}

// verifRunBinary drives the real builder: push both operands, apply the operator.
func verifRunBinary(op token.Token, x, y verifOperand) (class int, ret *Element) {
	pkg := verifNewPkg()
	cb := pkg.CB()
	class = vp.Try(func() {
		cb.Val(verifElem("x", x)).Val(verifElem("y", y)).BinaryOp(op)
		ret = cb.InternalStack().Pop()
	})
	return
}

func verifCheckResult(tag string, reason int, res verifOperand, class int, ret *Element) {
	accepted := class == vp.NoPanic
	vp.Assert("C17."+tag+".nofault", class != vp.FaultPanic)
	if class == vp.FaultPanic {
		return
	}
	if reason != verifOK {
		// soundness: everything Go rejects must be rejected (one assertion id per rejection reason)
		vp.Assert("C01."+tag+".sound."+verifReasons[reason], !accepted)
		return
	}
	vp.Assert("C02."+tag+".complete", accepted)
	if !accepted {
		return
	}
	vp.Observe("type", ret.Type)
	vp.Observe("cval", ret.CVal)
	vp.Assert("C03."+tag+".type", types.Identical(ret.Type, types.Typ[res.kind]))
	vp.Assert("C04."+tag+".hasval", ret.CVal != nil)
	if ret.CVal != nil {
		vp.Assert("C04."+tag+".value", verifConstEq(ret.CVal, res.val))
	}
	vp.Cover("ALL."+tag+".accepted", true)
}

// verifFacts names the quantities known-finding regions may refer to.
func verifFacts(op token.Token, x, y verifOperand) {
	vp.Fact("op", int(op))
	verifOperandFacts("x", x)
	verifOperandFacts("y", y)
}

func verifB2I(b bool) int {
	if b {
		return 1
	}
	return 0
}

func verifOperandFacts(n string, o verifOperand) {
	vp.Fact(n+".kind", int(o.kind))
	vp.Fact(n+".typed", verifB2I(o.typed))
	vp.Fact(n+".num", verifB2I(verifIsNumKind(o.kind)))
	huge := false
	integral := true
	if o.val.Kind() == constant.Int {
		huge = !verifInRange(o.val, types.Int64)
	}
	if o.val.Kind() == constant.Float {
		integral = constant.ToInt(o.val).Kind() == constant.Int
	}
	vp.FactBool(n+".huge", huge)         // integer constant outside the int64 range
	vp.FactBool(n+".integral", integral) // numeric value is an integer
}

func verifBinaryHarness(tag string, ops []token.Token, kinds []types.BasicKind) {
	op := ops[vp.Choose("op", len(ops))]
	var x, y verifOperand
	if vp.Thorough() || len(kinds) <= 7 {
		x = verifChooseOperand("x", kinds)
		y = verifChooseOperand("y", kinds)
	} else {
		// quick tier: every kind on one side, the partner is the same kind or one of three fixed kinds
		x = verifChooseOperand("x", kinds)
		partners := []types.BasicKind{x.kind, types.UntypedInt, types.UntypedFloat, types.Int8}
		y = verifOperandOfKind("y", partners[vp.Choose("y.k", len(partners))])
		if vp.Choose("swap", 2) == 1 {
			x, y = y, x
		}
	}
	verifFacts(op, x, y)
	reason, res := verifSpecBinary(op, x, y)
	class, ret := verifRunBinary(op, x, y)
	verifCheckResult(tag, reason, res, class, ret)
	if !vp.Symbolic() {
		verifCrossCheck("spec."+tag, verifOperandSrc(x)+" "+op.String()+" "+verifOperandSrc(y), reason == verifOK, res)
	}
}

// Arithmetic and bit operators on numeric constants.
func VerifH_K_binop_arith() {
	verifBinaryHarness("arith", []token.Token{token.ADD, token.SUB, token.MUL, token.QUO, token.REM,
		token.AND, token.OR, token.XOR, token.AND_NOT}, verifNumKindsAll)
}

// Comparisons on all constant kinds.
func VerifH_K_binop_cmp() {
	verifBinaryHarness("cmp", []token.Token{token.EQL, token.NEQ, token.LSS, token.LEQ, token.GTR, token.GEQ}, verifKindsAll)
}

// Every binary operator on bool/string/mixed kinds (operator applicability and kind mismatches).
func VerifH_K_binop_kinds() {
	kinds := []types.BasicKind{types.UntypedInt, types.UntypedFloat, types.UntypedBool, types.UntypedString, types.Int8, types.Bool, types.String}
	verifBinaryHarness("kinds", []token.Token{token.ADD, token.SUB, token.REM, token.AND, token.LAND, token.LOR}, kinds)
}

// ---------------------------------------------------------------------------
// unary operators

func verifSpecUnary(op token.Token, x verifOperand) (reason int, res verifOperand) {
	k := x.kind
	switch op {
	case token.ADD, token.SUB:
		if !verifIsNumKind(k) {
			return verifRejOpUndef, res
		}
	case token.XOR:
		if !verifIsIntKind(k) {
			return verifRejOpUndef, res
		}
	case token.NOT:
		if !verifIsBoolKind(k) {
			return verifRejOpUndef, res
		}
	}
	var v constant.Value
	switch {
	case op == token.XOR && (k == types.Uint8 || k == types.Uint16 || k == types.Uint32 || k == types.Uint64 || k == types.Uint || k == types.Uintptr):
		_, hi := verifIntRange(k)
		v = constant.BinaryOp(hi, token.SUB, x.val) // 2^w - 1 - x
	case op == token.XOR:
		v = constant.BinaryOp(verifNeg(x.val), token.SUB, constant.MakeInt64(1))
	default:
		v = constant.UnaryOp(op, x.val, 0)
	}
	res = verifOperand{typed: x.typed, kind: k, val: v}
	switch {
	case k >= types.Int && k <= types.Uintptr:
		if !verifInRange(v, k) {
			return verifRejOverflow, res
		}
	case k == types.UntypedInt || k == types.UntypedRune:
		if !verifUntypedIntOK(v) {
			return verifRejBigUntyped, res
		}
	}
	return verifOK, res
}

func VerifH_K_unop() {
	ops := []token.Token{token.ADD, token.SUB, token.XOR, token.NOT}
	op := ops[vp.Choose("op", len(ops))]
	x := verifChooseOperand("x", verifKindsAll) // cheap: every kind in both tiers
	vp.Fact("op", int(op))
	verifOperandFacts("x", x)
	reason, res := verifSpecUnary(op, x)
	pkg := verifNewPkg()
	cb := pkg.CB()
	var ret *Element
	class := vp.Try(func() {
		cb.Val(verifElem("x", x)).UnaryOp(op)
		ret = cb.InternalStack().Pop()
	})
	verifCheckResult("unop", reason, res, class, ret)
	if !vp.Symbolic() {
		verifCrossCheck("spec.unop", op.String()+verifOperandSrc(x), reason == verifOK, res)
	}
}

// ---------------------------------------------------------------------------
// shifts

const verifShiftBound = 1023 - 1 + 52 // go/types shiftBound

func verifSpecShift(op token.Token, x, y verifOperand) (reason int, res verifOperand) {
	// left operand: integer type, or untyped constant with an integer value
	var xv constant.Value
	switch {
	case x.typed:
		if !verifIsIntKind(x.kind) {
			return verifRejShiftLHS, res
		}
		xv = x.val
	case verifUntypedRank(x.kind) > 0:
		xv = constant.ToInt(x.val)
		if xv.Kind() != constant.Int {
			return verifRejShiftLHS, res
		}
	default:
		return verifRejShiftLHS, res
	}
	// count: integer type, or untyped constant representable as uint
	var yv constant.Value
	switch {
	case y.typed:
		if !verifIsIntKind(y.kind) {
			return verifRejShiftCount, res
		}
		yv = y.val
	case verifUntypedRank(y.kind) > 0:
		yv = constant.ToInt(y.val)
		if yv.Kind() != constant.Int {
			return verifRejShiftCount, res
		}
		if !verifInRange(yv, types.Uint) {
			return verifRejShiftCount, res
		}
	default:
		return verifRejShiftCount, res
	}
	if constant.Sign(yv) < 0 {
		return verifRejShiftCount, res
	}
	if constant.Compare(yv, token.GTR, constant.MakeInt64(verifShiftBound)) {
		return verifRejShiftCount, res
	}
	s, _ := constant.Uint64Val(yv)
	v := constant.Shift(xv, op, uint(s))
	k := x.kind
	if !x.typed && !verifIsIntKind(k) {
		k = types.UntypedInt
	}
	res = verifOperand{typed: x.typed, kind: k, val: v}
	if x.typed {
		if !verifInRange(v, k) {
			return verifRejOverflow, res
		}
	} else if !verifUntypedIntOK(v) {
		return verifRejBigUntyped, res
	}
	return verifOK, res
}

var verifShiftCounts = []int64{0, 1, 7, 8, 31, 63, 64, 511, 512, verifShiftBound}

// Shifts with landmark counts: values, overflow and result types are checked exactly.
func VerifH_K_shift() {
	ops := []token.Token{token.SHL, token.SHR}
	op := ops[vp.Choose("op", 2)]
	xk := []types.BasicKind{types.UntypedInt, types.UntypedRune, types.UntypedFloat, types.Int8, types.Uint8, types.Int, types.UntypedString}
	if vp.Thorough() {
		xk = verifKindsAll
	}
	x := verifChooseOperand("x", xk)
	yk := []types.BasicKind{types.UntypedInt, types.UntypedFloat, types.UntypedRune, types.Uint, types.Int}
	k := yk[vp.Choose("y.k", len(yk))]
	cnt := verifShiftCounts[vp.Choose("y.cnt", len(verifShiftCounts))]
	y := verifOperand{typed: !verifIsUntypedKind(k), kind: k, val: constant.MakeInt64(cnt)}
	if k == types.UntypedFloat {
		y.val = constant.ToFloat(y.val)
	}
	verifFacts(op, x, y)
	reason, res := verifSpecShift(op, x, y)
	class, ret := verifRunBinary(op, x, y)
	verifCheckResult("shift", reason, res, class, ret)
	if !vp.Symbolic() {
		verifCrossCheck("spec.shift", verifOperandSrc(x)+" "+op.String()+" "+verifOperandSrc(y), reason == verifOK, res)
	}
}

// Shifts with an arbitrary count of any kind: only the count/operand validity rules and
// fault freedom are asserted (result values under a symbolic count are approximated).
func VerifH_K_shiftcount() {
	ops := []token.Token{token.SHL, token.SHR}
	op := ops[vp.Choose("op", 2)]
	xk := []types.BasicKind{types.UntypedInt, types.UntypedFloat, types.Int8, types.Uint64, types.UntypedString, types.UntypedBool}
	yk := []types.BasicKind{types.UntypedInt, types.UntypedRune, types.UntypedFloat, types.Uint8, types.Int, types.Uint64, types.UntypedBool, types.UntypedString}
	x := verifChooseOperand("x", xk)
	y := verifChooseOperand("y", yk)
	verifFacts(op, x, y)
	reason, _ := verifSpecShift(op, x, y)
	class, _ := verifRunBinary(op, x, y)
	vp.Assert("C17.shiftcount.nofault", class != vp.FaultPanic)
	if class == vp.FaultPanic {
		return
	}
	if reason == verifRejShiftCount || reason == verifRejShiftLHS {
		vp.Assert("C01.shiftcount.sound."+verifReasons[reason], class != vp.NoPanic)
	}
	vp.Cover("ALL.shiftcount.accepted", class == vp.NoPanic)
}

// ---------------------------------------------------------------------------
// constant-capable builtins: min, max, len, cap, complex, real, imag

func verifCallBuiltin(name string, args []*Element) (class int, ret *Element) {
	pkg := verifNewPkg()
	cb := pkg.CB()
	class = vp.Try(func() {
		cb.Val(pkg.Builtin().Ref(name))
		for _, a := range args {
			cb.Val(a)
		}
		cb.Call(len(args))
		ret = cb.InternalStack().Pop()
	})
	return
}

func VerifH_K_minmax() {
	name := []string{"min", "max"}[vp.Choose("fn", 2)]
	n := 2
	kinds := []types.BasicKind{types.UntypedInt, types.UntypedFloat, types.Int8, types.UntypedString}
	if vp.Thorough() {
		n = 2 + vp.Choose("extra", 2)
		kinds = []types.BasicKind{types.UntypedInt, types.UntypedFloat, types.UntypedRune, types.Int8, types.Uint64, types.UntypedString}
	}
	ops := make([]verifOperand, n)
	var elems []*Element
	for i := range ops {
		ops[i] = verifChooseOperand("a"+string(rune('0'+i)), kinds)
		elems = append(elems, verifElem("a"+string(rune('0'+i)), ops[i]))
	}
	// spec: operands are matched pairwise like a binary operator on ordered types; the result is the extreme value
	reason := verifOK
	acc := ops[0]
	for i := 1; i < n && reason == verifOK; i++ {
		r, k, av, bv := verifMatch(acc, ops[i])
		reason = r
		if r != verifOK {
			break
		}
		if !verifOpDefined(token.LSS, k) {
			reason = verifRejOpUndef
			break
		}
		pick := constant.Compare(bv, token.LSS, av)
		if name == "max" {
			pick = constant.Compare(bv, token.GTR, av)
		}
		v := av
		if pick {
			v = bv
		}
		acc = verifOperand{typed: !verifIsUntypedKind(k), kind: k, val: v}
	}
	if n == 1 && !verifOpDefined(token.LSS, acc.kind) {
		reason = verifRejOpUndef
	}
	// every untyped operand is converted to the type of the typed operands (not only the running
	// extreme): min(1<<63, 0, int8(0)) overflows int8
	if reason == verifOK {
		for _, t := range ops {
			if !t.typed {
				continue
			}
			for i := range ops {
				if r, _, _, _ := verifMatch(ops[i], t); r != verifOK {
					reason = r
				}
			}
			break
		}
	}
	class, ret := verifCallBuiltin(name, elems)
	anyTyped, anyUntyped, anyStr, differ := 0, 0, 0, 0
	for i := range ops {
		if ops[i].typed {
			anyTyped = 1
		} else {
			anyUntyped = 1
		}
		if verifIsStrKind(ops[i].kind) {
			anyStr = 1
		}
		if ops[i].kind != ops[0].kind {
			differ = 1
		}
	}
	vp.Fact("anytyped", anyTyped)
	vp.Fact("anyuntyped", anyUntyped)
	vp.Fact("anystring", anyStr)
	vp.Fact("kindsdiffer", differ)
	verifCheckResult("minmax", reason, acc, class, ret)
	if !vp.Symbolic() {
		src := name + "("
		for i, o := range ops {
			if i > 0 {
				src += ", "
			}
			src += verifOperandSrc(o)
		}
		verifCrossCheck("spec.minmax", src+")", reason == verifOK, acc)
	}
}

func VerifH_K_lencap() {
	name := []string{"len", "cap"}[vp.Choose("fn", 2)]
	var arg *Element
	wantConst := false
	var want int64
	n := int64(vp.Choose("n", 3) * 5)
	switch vp.Choose("arg", 5) {
	case 0: // constant string
		s := vp.Pick("s", "", "a", "héllo")
		arg = &Element{Val: &ast.BasicLit{Kind: token.STRING, Value: `"s"`}, Type: types.Typ[types.UntypedString], CVal: constant.MakeString(s)}
		wantConst, want = name == "len", int64(len(s))
	case 1: // array value
		arg = &Element{Val: &ast.Ident{Name: "arr"}, Type: types.NewArray(types.Typ[types.Int], n)}
		wantConst, want = true, n
	case 2: // pointer to array
		arg = &Element{Val: &ast.Ident{Name: "parr"}, Type: types.NewPointer(types.NewArray(types.Typ[types.Int], n))}
		wantConst, want = true, n
	case 3: // slice: not constant
		arg = &Element{Val: &ast.Ident{Name: "sl"}, Type: types.NewSlice(types.Typ[types.Int])}
	case 4: // string variable: not constant
		arg = &Element{Val: &ast.Ident{Name: "str"}, Type: types.Typ[types.String]}
	}
	class, ret := verifCallBuiltin(name, []*Element{arg})
	vp.Assert("C17.lencap.nofault", class != vp.FaultPanic)
	if class != vp.NoPanic {
		return
	}
	vp.Assert("C03.lencap.type", types.Identical(ret.Type, types.Typ[types.Int]))
	if wantConst {
		vp.Assert("C04.lencap.const", ret.CVal != nil && constant.Compare(ret.CVal, token.EQL, constant.MakeInt64(want)))
	} else {
		vp.Assert("C04.lencap.notconst", ret.CVal == nil)
	}
}

func VerifH_K_complex() {
	re := verifChooseOperand("re", []types.BasicKind{types.UntypedInt, types.UntypedFloat})
	im := verifChooseOperand("im", []types.BasicKind{types.UntypedInt, types.UntypedFloat, types.UntypedRune})
	class, ret := verifCallBuiltin("complex", []*Element{verifElem("re", re), verifElem("im", im)})
	vp.Assert("C17.complex.nofault", class != vp.FaultPanic)
	vp.Assert("C02.complex.accepted", class == vp.NoPanic)
	if class != vp.NoPanic {
		return
	}
	vp.Assert("C04.complex.hasval", ret.CVal != nil)
	if ret.CVal != nil {
		vp.Assert("C04.complex.real", verifConstEq(constant.Real(ret.CVal), re.val))
		vp.Assert("C04.complex.imag", verifConstEq(constant.Imag(ret.CVal), im.val))
	}
	vp.Assert("C03.complex.type", types.Identical(ret.Type, types.Typ[types.UntypedComplex]))
	// real/imag of the folded value
	which := []string{"real", "imag"}[vp.Choose("part", 2)]
	c := &Element{Val: &ast.Ident{Name: "c"}, Type: types.Typ[types.UntypedComplex], CVal: ret.CVal}
	class2, part := verifCallBuiltin(which, []*Element{c})
	vp.Assert("C17.realimag.nofault", class2 != vp.FaultPanic)
	if class2 == vp.NoPanic {
		want := re.val
		if which == "imag" {
			want = im.val
		}
		vp.Assert("C04.realimag.value", part.CVal != nil && verifConstEq(part.CVal, want))
		vp.Assert("C03.realimag.type", types.Identical(part.Type, types.Typ[types.UntypedFloat]))
	}
}

// ---------------------------------------------------------------------------
// constant conversions T(c)

func VerifH_K_convert() {
	targets := []types.BasicKind{types.Int8, types.Uint8, types.Int, types.Uint64, types.String, types.Bool}
	if vp.Thorough() {
		targets = []types.BasicKind{types.Int, types.Int8, types.Int16, types.Int32, types.Int64, types.Uint, types.Uint8, types.Uint16, types.Uint32, types.Uint64, types.Uintptr, types.String, types.Bool}
	}
	tk := targets[vp.Choose("T", len(targets))]
	x := verifChooseOperand("x", []types.BasicKind{types.UntypedInt, types.UntypedRune, types.UntypedFloat, types.UntypedBool, types.UntypedString})
	vp.Fact("tkind", int(tk))
	verifOperandFacts("x", x)
	pkg := verifNewPkg()
	cb := pkg.CB()
	var ret *Element
	class := vp.Try(func() {
		cb.Typ(types.Typ[tk]).Val(verifElem("x", x)).Call(1)
		ret = cb.InternalStack().Pop()
	})
	vp.Assert("C17.convert.nofault", class != vp.FaultPanic)
	if class == vp.FaultPanic {
		return
	}
	accepted := class == vp.NoPanic
	// spec
	valid := false
	var val constant.Value
	intToString := false
	switch {
	case tk >= types.Int && tk <= types.Uintptr:
		if verifUntypedRank(x.kind) > 0 && verifRepresentable(x.val, tk) {
			valid, val = true, constant.ToInt(x.val)
		}
	case tk == types.String:
		if x.kind == types.UntypedString {
			valid, val = true, x.val
		} else if x.kind == types.UntypedInt || x.kind == types.UntypedRune {
			valid, intToString = true, true
		}
	case tk == types.Bool:
		if x.kind == types.UntypedBool {
			valid, val = true, x.val
		}
	}
	if !valid {
		vp.Assert("C01.convert.sound", !accepted)
		return
	}
	vp.Assert("C02.convert.complete", accepted)
	if !accepted {
		return
	}
	vp.Assert("C03.convert.type", types.Identical(ret.Type, types.Typ[tk]))
	vp.Assert("C04.convert.hasval", ret.CVal != nil)
	if ret.CVal == nil {
		return
	}
	if intToString {
		vp.Assert("C04.convert.stringkind", ret.CVal.Kind() == constant.String)
	} else {
		vp.Assert("C04.convert.value", verifConstEq(ret.CVal, val))
	}
	if !vp.Symbolic() && !intToString {
		verifCrossCheck("spec.convert", types.Typ[tk].Name()+"("+verifOperandSrc(x)+")", valid, verifOperand{typed: true, kind: tk, val: val})
	}
}
