//go:build verif

package gogen

// C11: language extensions lower to plain Go with the documented meaning (decision kernels).

import (
	"go/ast"
	"go/constant"
	"go/token"
	"go/types"

	"github.com/goplus/gogen/internal/vp"
)

// X1 optional parameters: missing trailing arguments are filled with zero values of the parameter
// types iff every missing non-variadic parameter is optional.
func VerifH_C11_optional() {
	pkg := verifNewPkg()
	nparams := vp.Choose("nparams", 4)
	variadic := vp.Choose("variadic", 2) == 1
	ptypes := []types.Type{types.Typ[types.Int], types.Typ[types.String], types.NewSlice(types.Typ[types.Int]), types.Typ[types.Bool]}
	var ps []*types.Var
	opt := make([]bool, nparams)
	for i := 0; i < nparams; i++ {
		opt[i] = vp.Choose("opt"+string(rune('0'+i)), 2) == 1
		ps = append(ps, pkg.NewParam(token.NoPos, "p"+string(rune('0'+i)), ptypes[i], opt[i]))
	}
	if variadic {
		ps = append(ps, pkg.NewParam(token.NoPos, "rest", types.NewSlice(types.Typ[types.Int]), false))
	}
	// documented order: positional* optional* variadic?
	validOrder := true
	seenOpt := false
	for i := 0; i < nparams; i++ {
		if opt[i] {
			seenOpt = true
		} else if seenOpt {
			validOrder = false
		}
	}
	var fn *Func
	class := vp.Try(func() {
		fn = pkg.NewFunc(nil, "f", types.NewTuple(ps...), nil, variadic)
		fn.BodyStart(pkg).End()
	})
	vp.Assert("C17.c11.optional.decl.nofault", class != vp.FaultPanic)
	if !validOrder {
		vp.Assert("C11.optional.order.rejected", class != vp.NoPanic)
		return
	}
	vp.Assert("C11.optional.order.accepted", class == vp.NoPanic)
	if class != vp.NoPanic {
		return
	}
	nargs := vp.Choose("nargs", 5)
	cb := pkg.NewFunc(nil, "g", nil, nil, false).BodyStart(pkg)
	var ret *Element
	class = vp.Try(func() {
		cb.Val(fn.Func)
		for i := 0; i < nargs; i++ {
			var t types.Type = types.Typ[types.Int]
			if i < nparams {
				t = ptypes[i]
			}
			cb.Val(&Element{Val: &ast.Ident{Name: "a" + string(rune('0'+i))}, Type: t})
		}
		cb.Call(nargs)
		ret = cb.InternalStack().Pop()
	})
	vp.Assert("C17.c11.optional.call.nofault", class != vp.FaultPanic)
	// Go-level expectation after lowering
	fillable := true
	for i := nargs; i < nparams; i++ {
		if !opt[i] {
			fillable = false
		}
	}
	ok := (nargs >= nparams && (nargs == nparams || variadic)) || (nargs < nparams && fillable)
	if !ok {
		vp.Assert("C11.optional.call.rejected", class != vp.NoPanic)
		return
	}
	vp.Assert("C11.optional.call.accepted", class == vp.NoPanic)
	if class != vp.NoPanic {
		return
	}
	call, isCall := ret.Val.(*ast.CallExpr)
	vp.Assert("C11.optional.call.shape", isCall)
	if !isCall {
		return
	}
	want := nargs
	if nargs < nparams {
		want = nparams
	}
	vp.Assert("C11.optional.call.arity", len(call.Args) == want)
	for i := 0; i < want && i < len(call.Args); i++ {
		if i < nargs {
			id, isID := call.Args[i].(*ast.Ident)
			vp.Assert("C11.optional.call.given", isID && id.Name == "a"+string(rune('0'+i)))
		} else {
			z := pkg.Zero(ptypes[i])
			vp.Assert("C11.optional.call.zero", verifExprKey(call.Args[i]) == verifExprKey(z.Val))
		}
	}
}

// X3 method alias names
func VerifH_C11_alias() {
	name := vp.Pick("name", "", "x", "X", "_x", "len", "9")
	flag := []MemberFlag{MemberFlagVal, MemberFlagMethodAlias, MemberFlagAutoProperty, MemberFlagRef, memberFlagMethodToFunc}[vp.Choose("flag", 5)]
	var alias string
	var out MemberFlag
	class := vp.Try(func() { alias, out = aliasNameOf(name, flag) })
	vp.Assert("C17.c11.alias.nofault", class == vp.NoPanic)
	if class != vp.NoPanic {
		return
	}
	want := ""
	if flag > 0 && name != "" {
		switch c := name[0]; {
		case c >= 'a' && c <= 'z':
			want = string(rune(c-'a'+'A')) + name[1:]
		case c == '_':
			want = "XGo" + name
		}
	}
	vp.Assert("C11.alias.name", alias == want)
	if want != "" {
		vp.Assert("C11.alias.flagkept", out == flag)
	}
}

// X4 bool casts of constants; X7 member sugar on string-keyed maps
func VerifH_C11_casts() {
	pkg := verifNewPkg()
	cb := pkg.CB()
	b := vp.Bool("b")
	target := []types.Type{types.Typ[types.Int], types.Typ[types.Uint8], types.Typ[types.Float64]}[vp.Choose("target", 3)]
	v := &Element{Val: &ast.Ident{Name: "true"}, Type: types.Typ[types.UntypedBool], CVal: constant.MakeBool(b)}
	ret, ok := CastFromBool(cb, target, v)
	vp.Assert("C11.boolcast.ok", ok)
	if ok {
		one := constant.MakeInt64(0)
		if b {
			one = constant.MakeInt64(1)
		}
		vp.Assert("C11.boolcast.value", ret.CVal != nil && constant.Compare(ret.CVal, token.EQL, one))
		vp.Assert("C11.boolcast.type", types.Identical(ret.Type, types.Typ[types.UntypedInt]))
	}
	// map member sugar
	keyT := []types.Type{types.Typ[types.String], types.Typ[types.Int], types.NewNamed(types.NewTypeName(token.NoPos, pkg.Types, "S", nil), types.Typ[types.String], nil)}[vp.Choose("key", 3)]
	m := types.NewMap(keyT, types.Typ[types.Float64])
	lhs := vp.Choose("lhs", 3)
	var kind MemberKind
	var res *Element
	class := vp.Try(func() {
		cb.Val(verifNonConst("m", m))
		kind, _ = cb.Member("key", lhs, MemberFlagVal)
		res = cb.InternalStack().Pop()
	})
	vp.Assert("C17.c11.mapsugar.nofault", class != vp.FaultPanic)
	_, keyIsBasicString := keyT.(*types.Basic)
	if class == vp.NoPanic && kind != MemberInvalid {
		vp.Assert("C11.mapsugar.onlystringkeys", keyIsBasicString && keyT.(*types.Basic).Info()&types.IsString != 0)
		ix, isIdx := res.Val.(*ast.IndexExpr)
		vp.Assert("C11.mapsugar.index", isIdx)
		if isIdx {
			lit, isLit := ix.Index.(*ast.BasicLit)
			vp.Assert("C11.mapsugar.key", isLit && lit.Value == `"key"`)
		}
		if lhs == 2 {
			tp, isT := res.Type.(*types.Tuple)
			vp.Assert("C11.mapsugar.commaok", isT && tp.Len() == 2 && types.Identical(tp.At(0).Type(), types.Typ[types.Float64]) && types.Identical(tp.At(1).Type(), types.Typ[types.Bool]))
		} else {
			vp.Assert("C11.mapsugar.elem", types.Identical(res.Type, types.Typ[types.Float64]))
		}
	} else if class == vp.NoPanic {
		vp.Assert("C11.mapsugar.stringkey.accepted", !(keyIsBasicString && keyT.(*types.Basic).Kind() == types.String))
	}
}
