//go:build verif

package gogen

// C13: the syntax emitted for a type denotes the identical type when read back by go/types
// in the generated package's context.  Type shapes are enumerated by forking (go/types objects
// are concrete); go/types is the reader.

import (
	"bytes"
	"go/token"
	"go/types"

	"github.com/goplus/gogen/internal/go/format"
	"github.com/goplus/gogen/internal/vp"
)

type verifTypeGen struct {
	pkg  *types.Package
	base []types.Type
	n    int
}

func (g *verifTypeGen) name(s string) string {
	g.n++
	return s + string(rune('a'+g.n%26)) + string(rune('a'+(g.n/26)%26))
}

var verifTags = []string{"", `json:"x"`, "a`b", "line\nbreak", `q"uote`, "cr\rtag", "crlf\r\n", "tab\there", `back\slash`, "nul\x00", "`", "é☃"}

func (g *verifTypeGen) gen(depth int) types.Type {
	if depth == 0 {
		return g.base[vp.Choose(g.name("base"), len(g.base))]
	}
	v := func(n string, t types.Type) *types.Var { return types.NewVar(token.NoPos, g.pkg, n, t) }
	switch vp.Choose(g.name("ctor"), 9) {
	case 0:
		return g.gen(0)
	case 1:
		return types.NewPointer(g.gen(depth - 1))
	case 2:
		return types.NewSlice(g.gen(depth - 1))
	case 3:
		return types.NewArray(g.gen(depth-1), []int64{0, 3, 1 << 40}[vp.Choose(g.name("len"), 3)])
	case 4:
		return types.NewMap(g.gen(0), g.gen(depth-1))
	case 5:
		return types.NewChan([]types.ChanDir{types.SendRecv, types.SendOnly, types.RecvOnly}[vp.Choose(g.name("dir"), 3)], g.gen(depth-1))
	case 6:
		var ps, rs []*types.Var
		variadic := false
		switch vp.Choose(g.name("sig"), 4) {
		case 1:
			ps = []*types.Var{v("a", g.gen(depth-1))}
			rs = []*types.Var{v("", g.gen(0))}
		case 2:
			ps = []*types.Var{v("a", g.gen(0)), v("b", types.NewSlice(g.gen(depth-1)))}
			variadic = true
		case 3:
			ps = []*types.Var{v("", g.gen(0))}
			rs = []*types.Var{v("x", g.gen(depth-1)), v("err", types.Universe.Lookup("error").Type())}
		}
		return types.NewSignatureType(nil, nil, nil, types.NewTuple(ps...), types.NewTuple(rs...), variadic)
	case 7:
		var fs []*types.Var
		var tags []string
		nf := 1 + vp.Choose(g.name("nf"), 2)
		for i := 0; i < nf; i++ {
			ft := g.gen(depth - 1)
			emb := false
			if (vp.Thorough() || i == 1) && vp.Choose(g.name("emb"), 2) == 1 {
				// embedded fields must be type names or pointers to them
				ft = g.base[1+vp.Choose(g.name("embt"), 2)]
				emb = true
				if vp.Choose(g.name("embp"), 2) == 1 {
					ft = types.NewPointer(ft)
				}
			}
			name := []string{"X", "y", "Z"}[i]
			if emb {
				name = embedName(ft)
			}
			dup := false
			for _, f := range fs {
				if f.Name() == name {
					dup = true
				}
			}
			if dup {
				continue
			}
			fs = append(fs, types.NewField(token.NoPos, g.pkg, name, ft, emb))
			if vp.Thorough() || i == 0 {
				tags = append(tags, verifTags[vp.Choose(g.name("tag"), len(verifTags))])
			} else {
				tags = append(tags, "")
			}
		}
		return types.NewStruct(fs, tags)
	}
	// interface with methods and an embedded interface
	var ms []*types.Func
	nm := vp.Choose(g.name("nm"), 3)
	for i := 0; i < nm; i++ {
		var sig *types.Signature
		switch vp.Choose(g.name("msig"), 3) {
		case 0:
			sig = types.NewSignatureType(nil, nil, nil, types.NewTuple(v("", g.gen(depth-1))), nil, false)
		case 1: // variadic method
			sig = types.NewSignatureType(nil, nil, nil, types.NewTuple(v("format", types.Typ[types.String]), v("args", types.NewSlice(g.gen(depth-1)))), nil, true)
		case 2: // results
			sig = types.NewSignatureType(nil, nil, nil, nil, types.NewTuple(v("", g.gen(depth-1)), v("", types.Universe.Lookup("error").Type())), false)
		}
		ms = append(ms, types.NewFunc(token.NoPos, g.pkg, []string{"M", "n"}[i], sig))
	}
	// embedded interfaces: none, error, or two/three distinct ones (named and literal)
	lit := func(name string, res types.Type) types.Type {
		var rs *types.Tuple
		if res != nil {
			rs = types.NewTuple(v("", res))
		}
		m := types.NewFunc(token.NoPos, g.pkg, name, types.NewSignatureType(nil, nil, nil, nil, rs, false))
		li := types.NewInterfaceType([]*types.Func{m}, nil)
		li.Complete()
		return li
	}
	errT := types.Universe.Lookup("error").Type()
	var embeds []types.Type
	iemb := 0
	if vp.Thorough() {
		iemb = []int{0, 3}[vp.Choose(g.name("iemb"), 2)] // depth 2 multiplies the space: none or three embedded interfaces
	} else {
		iemb = vp.Choose(g.name("iemb"), 5)
	}
	switch iemb {
	case 1:
		embeds = []types.Type{errT}
	case 2:
		embeds = []types.Type{errT, lit("String", types.Typ[types.String])}
	case 3:
		embeds = []types.Type{lit("Close", nil), errT, lit("String", types.Typ[types.String])}
	case 4:
		embeds = []types.Type{lit("String", types.Typ[types.String]), lit("Close", nil)}
	}
	it := types.NewInterfaceType(ms, embeds)
	it.Complete()
	return it
}

func verifTypeRoundTrip(pkg *Package, T types.Type) {
	var text string
	class := vp.Try(func() {
		var buf bytes.Buffer
		if err := format.Node(&buf, token.NewFileSet(), TypeAST(pkg, T)); err != nil {
			panic(err)
		}
		text = buf.String()
	})
	vp.Assert("C17.c13.nofault", class == vp.NoPanic)
	if class != vp.NoPanic {
		return
	}
	vp.Observe("text", text)
	upkg, _ := verifUniverse("\nvar t_zz_x " + text + "\n")
	back, ok := upkg.Scope().Lookup("t_zz_x").(*types.Var)
	vp.Assert("C13.readable", ok && back.Type() != types.Typ[types.Invalid])
	if !ok {
		return
	}
	// the universe is re-checked for reading back, so named components are compared by name:
	// identical printed form under go/types' own writer (qualified), which distinguishes every type shape
	vp.Assert("C13.identical", types.TypeString(back.Type(), nil) == types.TypeString(T, nil))
}

func VerifH_C13_types() {
	upkg, all := verifUniverse("")
	conf := &Config{Types: upkg, Importer: verifImporter{}, HandleErr: func(err error) { panic(err) }}
	pkg := NewPackage("", "u", conf)
	find := func(n string) types.Type {
		for _, t := range all {
			if t.name == n {
				return t.typ
			}
		}
		panic(n)
	}
	g := &verifTypeGen{pkg: upkg, base: []types.Type{types.Typ[types.Int], find("t_nint"), find("t_nst"), types.Typ[types.String], find("t_nerr"), find("t_any"), find("t_aint"), types.Typ[types.UnsafePointer]}}
	if !vp.Thorough() {
		g.base = []types.Type{types.Typ[types.Int], find("t_nint"), find("t_nst"), types.Typ[types.UnsafePointer]}
	}
	depth := 1
	if vp.Thorough() {
		depth = 2
	}
	T := g.gen(depth)
	if !vp.Thorough() && vp.Choose("wrap", 4) > 0 {
		// one more level of the unary constructors on top (channel-of-channel, pointer-to-struct, ...)
		switch vp.Choose("wrapctor", 4) {
		case 0:
			T = types.NewPointer(T)
		case 1:
			T = types.NewSlice(T)
		case 2:
			T = types.NewChan([]types.ChanDir{types.SendRecv, types.SendOnly, types.RecvOnly}[vp.Choose("wrapdir", 3)], T)
		default:
			T = types.NewMap(types.Typ[types.String], T)
		}
	}
	verifTypeRoundTrip(pkg, T)
	vp.Cover("ALL.c13.done", true)
}

// every type of the shared universe
func VerifH_C13_universe() {
	upkg, all := verifUniverse("")
	conf := &Config{Types: upkg, Importer: verifImporter{}, HandleErr: func(err error) { panic(err) }}
	pkg := NewPackage("", "u", conf)
	T := all[vp.Choose("T", len(all))]
	verifTypeRoundTrip(pkg, T.typ)
}


// generics: constraint interfaces (unions, approximation terms, comparable, methods) and
// instantiated generic named types with one to three type arguments
const verifGenericExtra = `
type G1[T any] struct{ v T }
type G2[K comparable, V any] map[K]V
type G3[A, B, C any] func(A, B) C
`

func VerifH_C13_generics() {
	upkg, _ := verifUniverse(verifGenericExtra)
	conf := &Config{Types: upkg, Importer: verifImporter{}, HandleErr: func(err error) { panic(err) }}
	pkg := NewPackage("", "u", conf)
	args := []types.Type{types.Typ[types.Int], types.Typ[types.String], upkg.Scope().Lookup("NInt").Type(), types.NewSlice(types.Typ[types.Bool]), upkg.Scope().Lookup("NSt").Type()}
	var T types.Type
	isConstraint := false
	switch vp.Choose("kind", 5) {
	case 0:
		g := upkg.Scope().Lookup("G1").Type()
		T, _ = types.Instantiate(nil, g, []types.Type{args[vp.Choose("a0", len(args))]}, false)
	case 1:
		g := upkg.Scope().Lookup("G2").Type()
		T, _ = types.Instantiate(nil, g, []types.Type{args[vp.Choose("a0", 3)], args[vp.Choose("a1", len(args))]}, false)
	case 2:
		g := upkg.Scope().Lookup("G3").Type()
		T, _ = types.Instantiate(nil, g, []types.Type{args[vp.Choose("a0", len(args))], args[vp.Choose("a1", len(args))], args[vp.Choose("a2", len(args))]}, false)
	case 3: // nested instantiation inside a composite
		g1 := upkg.Scope().Lookup("G1").Type()
		g2 := upkg.Scope().Lookup("G2").Type()
		in, _ := types.Instantiate(nil, g1, []types.Type{args[vp.Choose("a0", len(args))]}, false)
		out, _ := types.Instantiate(nil, g2, []types.Type{args[vp.Choose("a1", 3)], types.NewPointer(in)}, false)
		T = types.NewSlice(out)
	case 4: // constraint interface
		isConstraint = true
		terms := []*types.Term{}
		pool := []types.Type{types.Typ[types.Int], types.Typ[types.String], types.Typ[types.Float64], upkg.Scope().Lookup("NInt").Type()}
		nt := 1 + vp.Choose("nterms", 3)
		for i := 0; i < nt; i++ {
			tt := pool[(i+vp.Choose("t0", len(pool)))%len(pool)]
			tilde := vp.Choose("tilde"+string(rune('0'+i)), 2) == 1
			if _, named := tt.(*types.Named); named {
				tilde = false // ~T requires T to be its own underlying type
			}
			terms = append(terms, types.NewTerm(tilde, tt))
		}
		embeds := []types.Type{types.NewUnion(terms)}
		if vp.Choose("comparable", 2) == 1 {
			embeds = append([]types.Type{types.Universe.Lookup("comparable").Type()}, embeds...)
		}
		var ms []*types.Func
		if vp.Choose("method", 2) == 1 {
			ms = append(ms, types.NewFunc(token.NoPos, upkg, "String", types.NewSignatureType(nil, nil, nil, nil, types.NewTuple(types.NewVar(token.NoPos, upkg, "", types.Typ[types.String])), false)))
		}
		it := types.NewInterfaceType(ms, embeds)
		it.Complete()
		T = it
	}
	var text string
	class := vp.Try(func() {
		var buf bytes.Buffer
		if err := format.Node(&buf, token.NewFileSet(), TypeAST(pkg, T)); err != nil {
			panic(err)
		}
		text = buf.String()
	})
	vp.Assert("C17.c13.generics.nofault", class == vp.NoPanic)
	if class != vp.NoPanic {
		return
	}
	vp.Observe("text", text)
	var back types.Type
	if isConstraint {
		rp, _ := verifUniverse(verifGenericExtra + "\ntype ZZ_C " + text + "\n")
		if o := rp.Scope().Lookup("ZZ_C"); o != nil {
			back = o.Type().Underlying()
		}
	} else {
		rp, _ := verifUniverse(verifGenericExtra + "\nvar t_zz_x " + text + "\n")
		if o, ok := rp.Scope().Lookup("t_zz_x").(*types.Var); ok {
			back = o.Type()
		}
	}
	vp.Assert("C13.generics.readable", back != nil && back != types.Typ[types.Invalid])
	if back == nil {
		return
	}
	vp.Observe("back", types.TypeString(back, nil))
	vp.Observe("orig", types.TypeString(T, nil))
	vp.Assert("C13.generics.identical", types.TypeString(back, nil) == types.TypeString(T, nil))
}
