//go:build verif

package gogen

// C17: operations never fail with a Go run-time fault; dedicated drivers for the anchored sites.
// (Every other harness contributes C17.* assertions too.)

import (
	"go/ast"
	"go/constant"
	"go/token"
	"go/types"

	"github.com/goplus/gogen/internal/vp"
)

func verifNoFault(tag string, f func()) int {
	class := vp.Try(f)
	vp.Assert("C17."+tag+".nofault", class != vp.FaultPanic)
	return class
}

// IncDec / AssignOp / Assign on operands that are or are not assignment targets
func VerifH_C17_assignops() {
	pkg := verifNewPkg()
	cb := pkg.NewFunc(nil, "f", nil, nil, false).BodyStart(pkg)
	tint := types.Typ[types.Int]
	lhsForm := vp.Choose("lhs", 4)
	var lhs *Element
	switch lhsForm {
	case 0: // proper reference
		lhs = &Element{Val: &ast.Ident{Name: "x"}, Type: &refType{typ: tint}}
	case 1: // a plain value where a reference is required
		lhs = &Element{Val: &ast.Ident{Name: "x"}, Type: tint}
	case 2: // untyped constant
		lhs = &Element{Val: &ast.BasicLit{Kind: token.INT, Value: "1"}, Type: types.Typ[types.UntypedInt], CVal: constant.MakeInt64(1)}
	case 3: // reference to a string
		lhs = &Element{Val: &ast.Ident{Name: "s"}, Type: &refType{typ: types.Typ[types.String]}}
	}
	vp.Fact("lhs", lhsForm)
	op := vp.Choose("op", 4)
	vp.Fact("op", op)
	verifNoFault("assignops", func() {
		switch op {
		case 0:
			cb.Val(lhs).IncDec(token.INC)
		case 1:
			cb.Val(lhs).Val(1).AssignOp(token.ADD_ASSIGN)
		case 2:
			cb.Val(lhs).Val(1).AssignOp(token.SHL_ASSIGN)
		case 3:
			cb.Val(lhs).Val(1).Assign(1)
		}
	})
}

// builtin functions with every argument count and ill-typed arguments
func VerifH_C17_builtins() {
	pkg := verifNewPkg()
	cb := pkg.NewFunc(nil, "f", nil, nil, false).BodyStart(pkg)
	names := []string{"len", "cap", "new", "make", "append", "copy", "delete", "close", "panic", "recover", "complex", "real", "imag", "min", "max", "print"}
	name := names[vp.Choose("fn", len(names))]
	nargs := vp.Choose("nargs", 4)
	argTypes := []types.Type{types.Typ[types.Int], types.NewSlice(types.Typ[types.Int]), types.Typ[types.String], types.NewMap(types.Typ[types.String], types.Typ[types.Int])}
	verifNoFault("builtins", func() {
		cb.Val(pkg.Builtin().Ref(name))
		for i := 0; i < nargs; i++ {
			t := argTypes[vp.Choose("t"+string(rune('0'+i)), len(argTypes))]
			if vp.Choose("astype"+string(rune('0'+i)), 2) == 1 {
				cb.Typ(t)
			} else {
				cb.Val(verifNonConst("a", t))
			}
		}
		cb.Call(nargs)
	})
}

// member access with unusual names on every operand shape
func VerifH_C17_names() {
	pkg := verifNewPkg()
	cb := pkg.CB()
	st := types.NewStruct([]*types.Var{types.NewField(token.NoPos, pkg.Types, "x", types.Typ[types.Int], false)}, nil)
	operands := []types.Type{st, types.NewPointer(st), types.Typ[types.String], types.NewMap(types.Typ[types.String], types.Typ[types.Int]), TyEmptyInterface, types.NewSlice(types.Typ[types.Int])}
	t := operands[vp.Choose("operand", len(operands))]
	name := vp.Pick("name", "", "x", "_", "1", "X")
	flag := []MemberFlag{MemberFlagVal, MemberFlagRef, MemberFlagMethodAlias, MemberFlagAutoProperty}[vp.Choose("flag", 4)]
	verifNoFault("names", func() {
		cb.Val(verifNonConst("v", t))
		cb.Member(name, 0, flag)
	})
}

// composite literals with keyed constant indices (C01-K7 lives here too)
func VerifH_C17_arraylit() {
	pkg := verifNewPkg()
	cb := pkg.CB()
	n := vp.Choose("len", 4) - 1 // -1: [...]T
	elem := types.Typ[types.Int]
	nel := 1 + vp.Choose("nel", 2)
	idx := make([]constant.Value, nel)
	keyed := vp.Choose("keyed", 2) == 1
	var typ types.Type = types.NewArray(elem, int64(n))
	isSlice := vp.Choose("slice", 2) == 1
	if isSlice {
		typ = types.NewSlice(elem)
	}
	class := verifNoFault("arraylit", func() {
		for i := 0; i < nel; i++ {
			if keyed {
				// indices are machine-integer shaped constants (any int64) or a constant beyond the int64 range
				if vp.Choose("huge"+string(rune('0'+i)), 4) == 3 {
					idx[i] = constant.Shift(constant.MakeInt64(1), token.SHL, 70)
				} else {
					idx[i] = constant.MakeInt64(vp.Int64("idx"+string(rune('0'+i)), -3, 6))
				}
				cb.Val(&Element{Val: &ast.BasicLit{Kind: token.INT, Value: "k"}, Type: types.Typ[types.UntypedInt], CVal: idx[i]})
			}
			cb.Val(verifNonConst("e", elem))
		}
		arity := nel
		if keyed {
			arity = 2 * nel
		}
		if isSlice {
			cb.SliceLit(typ, arity, keyed)
		} else {
			cb.ArrayLit(typ, arity, keyed)
		}
	})
	if class == vp.FaultPanic || !keyed {
		return
	}
	accepted := class == vp.NoPanic
	// spec: indices are non-negative int constants representable as int, below the array length, pairwise distinct
	valid := true
	for i := 0; i < nel; i++ {
		if constant.Sign(idx[i]) < 0 || !verifInRange(idx[i], types.Int) {
			valid = false
		}
		if !isSlice && n >= 0 && !constant.Compare(idx[i], token.LSS, constant.MakeInt64(int64(n))) {
			valid = false
		}
		for j := 0; j < i; j++ {
			if constant.Compare(idx[i], token.EQL, idx[j]) {
				valid = false
			}
		}
	}
	neg := false
	dup := false
	for i := 0; i < nel; i++ {
		neg = vp.Or(neg, constant.Sign(idx[i]) < 0)
		for j := 0; j < i; j++ {
			dup = vp.Or(dup, constant.Compare(idx[i], token.EQL, idx[j]))
		}
	}
	vp.FactBool("negidx", neg)
	vp.FactBool("dupidx", dup)
	if valid {
		vp.Assert("C02.arraylit.complete", accepted)
	} else {
		vp.Assert("C01.arraylit.sound", !accepted)
	}
}

// struct literals: field indices of keyed literals are arbitrary integer constants
func VerifH_C17_structlit() {
	pkg := verifNewPkg()
	cb := pkg.CB()
	nf := vp.Choose("nfields", 4)
	ftypes := []types.Type{types.Typ[types.Int], types.Typ[types.String], types.Typ[types.Int]}
	var flds []*types.Var
	for i := 0; i < nf; i++ {
		flds = append(flds, types.NewField(token.NoPos, pkg.Types, "F"+string(rune('0'+i)), ftypes[i], false))
	}
	var typ types.Type = types.NewStruct(flds, nil)
	if vp.Choose("named", 2) == 1 {
		typ = types.NewNamed(types.NewTypeName(token.NoPos, pkg.Types, "S", nil), typ, nil)
	}
	keyed := vp.Choose("keyed", 2) == 1
	nel := vp.Choose("nel", 3)
	idx := make([]constant.Value, nel)
	vtyp := make([]types.Type, nel)
	class := verifNoFault("structlit", func() {
		for i := 0; i < nel; i++ {
			if keyed {
				if vp.Choose("huge"+string(rune('0'+i)), 4) == 3 {
					idx[i] = constant.Shift(constant.MakeInt64(1), token.SHL, 70)
				} else {
					idx[i] = constant.MakeInt64(vp.Int64("idx"+string(rune('0'+i)), -3, 6))
				}
				cb.Val(&Element{Val: &ast.BasicLit{Kind: token.INT, Value: "k"}, Type: types.Typ[types.UntypedInt], CVal: idx[i]})
			}
			vtyp[i] = ftypes[vp.Choose("vt"+string(rune('0'+i)), 2)]
			cb.Val(verifNonConst("e", vtyp[i]))
		}
		arity := nel
		if keyed {
			arity = 2 * nel
		}
		cb.StructLit(typ, arity, keyed)
	})
	if class == vp.FaultPanic {
		return
	}
	accepted := class == vp.NoPanic
	valid := true
	dup := false
	if keyed {
		for i := 0; i < nel; i++ {
			if constant.Sign(idx[i]) < 0 || !constant.Compare(idx[i], token.LSS, constant.MakeInt64(int64(nf))) {
				valid = false
				continue
			}
			k, _ := constant.Int64Val(idx[i])
			if !types.Identical(vtyp[i], ftypes[k]) {
				valid = false
			}
			for j := 0; j < i; j++ {
				if constant.Compare(idx[i], token.EQL, idx[j]) {
					dup = true
				}
			}
		}
	} else {
		if nel != 0 && nel != nf {
			valid = false
		}
		for i := 0; i < nel && i < nf; i++ {
			if !types.Identical(vtyp[i], ftypes[i]) {
				valid = false
			}
		}
	}
	vp.FactBool("dupfield", dup)
	if valid && !dup {
		vp.Assert("C02.structlit.complete", accepted)
	} else {
		vp.Assert("C01.structlit.sound", !accepted)
	}
	if accepted {
		lit, ok := cb.Get(-1).Val.(*ast.CompositeLit)
		vp.Assert("C02.structlit.node", ok && len(lit.Elts) == nel)
	}
}
