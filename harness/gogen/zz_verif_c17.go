//go:build verif

package gogen

// C17: operations never fail with a Go run-time fault; dedicated drivers for the anchored sites.
// (Every other harness contributes C17.* assertions too.)

import (
	"go/ast"
	"go/constant"
	"go/importer"
	"go/parser"
	"go/token"
	"go/types"
	"strings"

	"github.com/goplus/gogen/internal/vp"
)

func verifNoFault(tag string, f func()) int {
	class := vp.Try(f)
	vp.Assert("C17."+tag+".nofault", class != vp.FaultPanic)
	return class
}

// IncDec / AssignOp / Assign on operands that are or are not assignment targets
func VerifH_C17_assignops() {
	pkg := verifNewPkg()
	cb := pkg.NewFunc(nil, "f", nil, nil, false).BodyStart(pkg)
	tint := types.Typ[types.Int]
	lhsForm := vp.Choose("lhs", 4)
	var lhs *Element
	switch lhsForm {
	case 0: // proper reference
		lhs = &Element{Val: &ast.Ident{Name: "x"}, Type: &refType{typ: tint}}
	case 1: // a plain value where a reference is required
		lhs = &Element{Val: &ast.Ident{Name: "x"}, Type: tint}
	case 2: // untyped constant
		lhs = &Element{Val: &ast.BasicLit{Kind: token.INT, Value: "1"}, Type: types.Typ[types.UntypedInt], CVal: constant.MakeInt64(1)}
	case 3: // reference to a string
		lhs = &Element{Val: &ast.Ident{Name: "s"}, Type: &refType{typ: types.Typ[types.String]}}
	}
	vp.Fact("lhs", lhsForm)
	op := vp.Choose("op", 4)
	vp.Fact("op", op)
	verifNoFault("assignops", func() {
		switch op {
		case 0:
			cb.Val(lhs).IncDec(token.INC)
		case 1:
			cb.Val(lhs).Val(1).AssignOp(token.ADD_ASSIGN)
		case 2:
			cb.Val(lhs).Val(1).AssignOp(token.SHL_ASSIGN)
		case 3:
			cb.Val(lhs).Val(1).Assign(1)
		}
	})
}

// builtin functions with every argument count and ill-typed arguments
func VerifH_C17_builtins() {
	pkg := verifNewPkg()
	cb := pkg.NewFunc(nil, "f", nil, nil, false).BodyStart(pkg)
	names := []string{"len", "cap", "new", "make", "append", "copy", "delete", "close", "panic", "recover", "complex", "real", "imag", "min", "max", "print"}
	name := names[vp.Choose("fn", len(names))]
	nargs := vp.Choose("nargs", 4)
	argTypes := []types.Type{types.Typ[types.Int], types.NewSlice(types.Typ[types.Int]), types.Typ[types.String], types.NewMap(types.Typ[types.String], types.Typ[types.Int])}
	verifNoFault("builtins", func() {
		cb.Val(pkg.Builtin().Ref(name))
		for i := 0; i < nargs; i++ {
			t := argTypes[vp.Choose("t"+string(rune('0'+i)), len(argTypes))]
			if vp.Choose("astype"+string(rune('0'+i)), 2) == 1 {
				cb.Typ(t)
			} else {
				cb.Val(verifNonConst("a", t))
			}
		}
		cb.Call(nargs)
	})
}

// member access with unusual names on every operand shape
func VerifH_C17_names() {
	pkg := verifNewPkg()
	cb := pkg.CB()
	st := types.NewStruct([]*types.Var{types.NewField(token.NoPos, pkg.Types, "x", types.Typ[types.Int], false)}, nil)
	operands := []types.Type{st, types.NewPointer(st), types.Typ[types.String], types.NewMap(types.Typ[types.String], types.Typ[types.Int]), TyEmptyInterface, types.NewSlice(types.Typ[types.Int])}
	t := operands[vp.Choose("operand", len(operands))]
	name := vp.Pick("name", "", "x", "_", "1", "X")
	flag := []MemberFlag{MemberFlagVal, MemberFlagRef, MemberFlagMethodAlias, MemberFlagAutoProperty}[vp.Choose("flag", 4)]
	verifNoFault("names", func() {
		cb.Val(verifNonConst("v", t))
		cb.Member(name, 0, flag)
	})
}

// composite literals with keyed constant indices (C01-K7 lives here too)
func VerifH_C17_arraylit() {
	pkg := verifNewPkg()
	cb := pkg.CB()
	n := vp.Choose("len", 4) - 1 // -1: [...]T
	elem := types.Typ[types.Int]
	nel := 1 + vp.Choose("nel", 2)
	idx := make([]constant.Value, nel)
	keyed := vp.Choose("keyed", 2) == 1
	var typ types.Type = types.NewArray(elem, int64(n))
	isSlice := vp.Choose("slice", 2) == 1
	if isSlice {
		typ = types.NewSlice(elem)
	}
	class := verifNoFault("arraylit", func() {
		for i := 0; i < nel; i++ {
			if keyed {
				// indices are machine-integer shaped constants (any int64) or a constant beyond the int64 range
				if vp.Choose("huge"+string(rune('0'+i)), 4) == 3 {
					idx[i] = constant.Shift(constant.MakeInt64(1), token.SHL, 70)
				} else {
					idx[i] = constant.MakeInt64(vp.Int64("idx"+string(rune('0'+i)), -3, 6))
				}
				cb.Val(&Element{Val: &ast.BasicLit{Kind: token.INT, Value: "k"}, Type: types.Typ[types.UntypedInt], CVal: idx[i]})
			}
			cb.Val(verifNonConst("e", elem))
		}
		arity := nel
		if keyed {
			arity = 2 * nel
		}
		if isSlice {
			cb.SliceLit(typ, arity, keyed)
		} else {
			cb.ArrayLit(typ, arity, keyed)
		}
	})
	if class == vp.FaultPanic || !keyed {
		return
	}
	accepted := class == vp.NoPanic
	// spec: indices are non-negative int constants representable as int, below the array length, pairwise distinct
	valid := true
	for i := 0; i < nel; i++ {
		if constant.Sign(idx[i]) < 0 || !verifInRange(idx[i], types.Int) {
			valid = false
		}
		if !isSlice && n >= 0 && !constant.Compare(idx[i], token.LSS, constant.MakeInt64(int64(n))) {
			valid = false
		}
		for j := 0; j < i; j++ {
			if constant.Compare(idx[i], token.EQL, idx[j]) {
				valid = false
			}
		}
	}
	neg := false
	dup := false
	for i := 0; i < nel; i++ {
		neg = vp.Or(neg, constant.Sign(idx[i]) < 0)
		for j := 0; j < i; j++ {
			dup = vp.Or(dup, constant.Compare(idx[i], token.EQL, idx[j]))
		}
	}
	vp.FactBool("negidx", neg)
	vp.FactBool("dupidx", dup)
	if valid {
		vp.Assert("C02.arraylit.complete", accepted)
	} else {
		vp.Assert("C01.arraylit.sound", !accepted)
	}
}

// struct literals: field indices of keyed literals are arbitrary integer constants
func VerifH_C17_structlit() {
	pkg := verifNewPkg()
	cb := pkg.CB()
	nf := vp.Choose("nfields", 4)
	ftypes := []types.Type{types.Typ[types.Int], types.Typ[types.String], types.Typ[types.Int]}
	var flds []*types.Var
	for i := 0; i < nf; i++ {
		flds = append(flds, types.NewField(token.NoPos, pkg.Types, "F"+string(rune('0'+i)), ftypes[i], false))
	}
	var typ types.Type = types.NewStruct(flds, nil)
	if vp.Choose("named", 2) == 1 {
		typ = types.NewNamed(types.NewTypeName(token.NoPos, pkg.Types, "S", nil), typ, nil)
	}
	keyed := vp.Choose("keyed", 2) == 1
	nel := vp.Choose("nel", 3)
	idx := make([]constant.Value, nel)
	vtyp := make([]types.Type, nel)
	class := verifNoFault("structlit", func() {
		for i := 0; i < nel; i++ {
			if keyed {
				if vp.Choose("huge"+string(rune('0'+i)), 4) == 3 {
					idx[i] = constant.Shift(constant.MakeInt64(1), token.SHL, 70)
				} else {
					idx[i] = constant.MakeInt64(vp.Int64("idx"+string(rune('0'+i)), -3, 6))
				}
				cb.Val(&Element{Val: &ast.BasicLit{Kind: token.INT, Value: "k"}, Type: types.Typ[types.UntypedInt], CVal: idx[i]})
			}
			vtyp[i] = ftypes[vp.Choose("vt"+string(rune('0'+i)), 2)]
			cb.Val(verifNonConst("e", vtyp[i]))
		}
		arity := nel
		if keyed {
			arity = 2 * nel
		}
		cb.StructLit(typ, arity, keyed)
	})
	if class == vp.FaultPanic {
		return
	}
	accepted := class == vp.NoPanic
	valid := true
	dup := false
	if keyed {
		for i := 0; i < nel; i++ {
			if constant.Sign(idx[i]) < 0 || !constant.Compare(idx[i], token.LSS, constant.MakeInt64(int64(nf))) {
				valid = false
				continue
			}
			k, _ := constant.Int64Val(idx[i])
			if !types.Identical(vtyp[i], ftypes[k]) {
				valid = false
			}
			for j := 0; j < i; j++ {
				if constant.Compare(idx[i], token.EQL, idx[j]) {
					dup = true
				}
			}
		}
	} else {
		if nel != 0 && nel != nf {
			valid = false
		}
		for i := 0; i < nel && i < nf; i++ {
			if !types.Identical(vtyp[i], ftypes[i]) {
				valid = false
			}
		}
	}
	vp.FactBool("dupfield", dup)
	if valid && !dup {
		vp.Assert("C02.structlit.complete", accepted)
	} else {
		vp.Assert("C01.structlit.sound", !accepted)
	}
	if accepted {
		lit, ok := cb.Get(-1).Val.(*ast.CompositeLit)
		vp.Assert("C02.structlit.node", ok && len(lit.Elts) == nel)
	}
}

// every stack operation on every kind of operand (well-typed or not): errors are fine, faults are not
func verifC17Operand(cb *CodeBuilder, pkg *Package, name string) {
	tint := types.Typ[types.Int]
	st := types.NewStruct([]*types.Var{types.NewField(token.NoPos, pkg.Types, "X", tint, false)}, nil)
	switch vp.Choose(name, 15) {
	case 0:
		cb.Val(verifNonConst("i", tint))
	case 1:
		cb.Val(verifNonConst("s", types.Typ[types.String]))
	case 2:
		cb.Val(verifNonConst("sl", types.NewSlice(tint)))
	case 3:
		cb.Val(verifNonConst("m", types.NewMap(types.Typ[types.String], tint)))
	case 4:
		cb.Val(verifNonConst("p", types.NewPointer(st)))
	case 5:
		cb.Val(verifNonConst("st", st))
	case 6:
		cb.Val(verifNonConst("fn", types.NewSignatureType(nil, nil, nil, nil, types.NewTuple(types.NewVar(token.NoPos, pkg.Types, "", tint), types.NewVar(token.NoPos, pkg.Types, "", TyError)), false)))
	case 7:
		cb.Val(verifNonConst("ch", types.NewChan(types.RecvOnly, tint)))
	case 8:
		cb.Val(verifNonConst("e", TyEmptyInterface))
	case 9:
		cb.Val(nil)
	case 10:
		cb.Val(5)
	case 11:
		cb.Typ(tint)
	case 12: // a multi-value call result
		cb.Val(verifNonConst("fn", types.NewSignatureType(nil, nil, nil, nil, types.NewTuple(types.NewVar(token.NoPos, pkg.Types, "", tint), types.NewVar(token.NoPos, pkg.Types, "", TyError)), false))).Call(0)
	case 13:
		cb.Val(verifNonConst("arr", types.NewPointer(types.NewArray(tint, 3))))
	case 14:
		cb.Val(1.5)
	}
}

var verifC17OpNames = []string{"slice", "slice3", "index", "index2", "indexref", "star", "elem", "elemref", "assert", "assert2", "send", "incdec", "assignop", "assign", "unary-", "unary!", "unary^", "unary<-", "unary&", "binary+", "binary<<", "binary==", "binary&&", "member", "memberref", "call1", "return1", "returnerr", "defer", "go", "if", "for", "switchcase", "range", "typeswitch", "maplit", "slicelit", "structlit", "endstmt"}

func VerifH_C17_ops() {
	pkg := verifNewPkg()
	tint := types.Typ[types.Int]
	res := types.NewTuple(types.NewParam(token.NoPos, pkg.Types, "", tint))
	withRes := vp.Choose("results", 2) == 1
	var cb *CodeBuilder
	if withRes {
		cb = pkg.NewFunc(nil, "f", nil, res, false).BodyStart(pkg)
	} else {
		cb = pkg.NewFunc(nil, "f", nil, nil, false).BodyStart(pkg)
	}
	op := verifC17OpNames[vp.Choose("op", len(verifC17OpNames))]
	verifNoFault("ops", func() {
		switch op {
		case "if":
			cb.If()
			verifC17Operand(cb, pkg, "a")
			cb.Then().End()
			return
		case "for":
			cb.For()
			verifC17Operand(cb, pkg, "a")
			cb.Then().End()
			return
		case "switchcase":
			cb.Switch()
			verifC17Operand(cb, pkg, "a")
			cb.Then().Case()
			verifC17Operand(cb, pkg, "b")
			cb.Then().End().End()
			return
		case "range":
			cb.ForRange("k", "v")
			verifC17Operand(cb, pkg, "a")
			cb.RangeAssignThen(token.NoPos).End()
			return
		case "typeswitch":
			cb.TypeSwitch("t")
			verifC17Operand(cb, pkg, "a")
			cb.TypeAssertThen().TypeCase()
			verifC17Operand(cb, pkg, "b")
			cb.Then().End().End()
			return
		}
		verifC17Operand(cb, pkg, "a")
		switch op {
		case "slice":
			cb.None()
			verifC17Operand(cb, pkg, "b")
			cb.Slice(false)
		case "slice3":
			cb.None()
			verifC17Operand(cb, pkg, "b")
			cb.Val(2).Slice(true)
		case "index":
			verifC17Operand(cb, pkg, "b")
			cb.Index(1, 0)
		case "index2":
			verifC17Operand(cb, pkg, "b")
			cb.Index(1, 2)
		case "indexref":
			verifC17Operand(cb, pkg, "b")
			cb.IndexRef(1)
		case "star":
			cb.Star()
		case "elem":
			cb.Elem()
		case "elemref":
			cb.ElemRef()
		case "assert":
			cb.TypeAssert(tint, 0)
		case "assert2":
			cb.TypeAssert(TyError, 2)
		case "send":
			verifC17Operand(cb, pkg, "b")
			cb.Send()
		case "incdec":
			cb.IncDec(token.INC)
		case "assignop":
			verifC17Operand(cb, pkg, "b")
			cb.AssignOp(token.ADD_ASSIGN)
		case "assign":
			verifC17Operand(cb, pkg, "b")
			cb.Assign(1)
		case "unary-":
			cb.UnaryOp(token.SUB)
		case "unary!":
			cb.UnaryOp(token.NOT)
		case "unary^":
			cb.UnaryOp(token.XOR)
		case "unary<-":
			cb.UnaryOpEx(token.ARROW, 2)
		case "unary&":
			cb.UnaryOp(token.AND)
		case "binary+":
			verifC17Operand(cb, pkg, "b")
			cb.BinaryOp(token.ADD)
		case "binary<<":
			verifC17Operand(cb, pkg, "b")
			cb.BinaryOp(token.SHL)
		case "binary==":
			verifC17Operand(cb, pkg, "b")
			cb.BinaryOp(token.EQL)
		case "binary&&":
			verifC17Operand(cb, pkg, "b")
			cb.BinaryOp(token.LAND)
		case "member":
			cb.MemberVal("X", 0)
		case "memberref":
			cb.MemberRef("X")
		case "call1":
			verifC17Operand(cb, pkg, "b")
			cb.Call(1)
		case "return1":
			cb.Return(1)
		case "returnerr":
			cb.ReturnErr(false)
		case "defer":
			cb.Defer()
		case "go":
			cb.Go()
		case "maplit":
			verifC17Operand(cb, pkg, "b")
			cb.MapLit(nil, 2)
		case "slicelit":
			verifC17Operand(cb, pkg, "b")
			cb.SliceLit(nil, 2)
		case "structlit":
			cb.StructLit(types.NewStruct([]*types.Var{types.NewField(token.NoPos, pkg.Types, "X", tint, false)}, nil), 1, false)
		case "endstmt":
			cb.EndStmt()
		}
	})
}

// C01 at expression level: whenever one of the value-producing operations is accepted on a pair
// of operands, the emitted expression must type-check in an environment declaring the operands.
const verifOpsEnv = `package p

var (
	i   int
	s   string
	sl  []int
	m   map[string]int
	p   *struct{ X int }
	st  struct{ X int }
	fn  func() (int, error)
	ch  <-chan int
	e   interface{}
	arr *[3]int
)
`

func VerifH_C01_ops() {
	pkg := verifNewPkg()
	tint := types.Typ[types.Int]
	cb := pkg.NewFunc(nil, "f", nil, nil, false).BodyStart(pkg)
	ops := []string{"slice", "slice3", "index", "index2", "star", "elem", "assert", "assert2", "unary-", "unary!", "unary^", "unary<-", "unary&", "binary+", "binary-", "binary<<", "binary==", "binary<", "binary&&", "binary%", "member", "call1", "call0"}
	op := ops[vp.Choose("op", len(ops))]
	// the same expression written as Go source (completeness direction)
	operandSrc := []string{"i", "s", "sl", "m", "p", "st", "fn", "ch", "e", "nil", "5", "int", "fn()", "arr", "1.5"}
	srcA := operandSrc[vp.Choose("a", 15)]
	goExpr, goLHS := "", "_"
	binary := func(tok string) string { return srcA + " " + tok + " " + operandSrc[vp.Choose("b", 15)] }
	switch op {
	case "slice":
		goExpr = srcA + "[:" + operandSrc[vp.Choose("b", 15)] + "]"
	case "slice3":
		goExpr = srcA + "[:" + operandSrc[vp.Choose("b", 15)] + ":2]"
	case "index":
		goExpr = srcA + "[" + operandSrc[vp.Choose("b", 15)] + "]"
	case "index2":
		goExpr, goLHS = srcA+"["+operandSrc[vp.Choose("b", 15)]+"]", "_, _"
	case "star", "elem":
		goExpr = "*" + srcA
	case "assert":
		goExpr = srcA + ".(int)"
	case "assert2":
		goExpr, goLHS = srcA+".(error)", "_, _"
	case "unary-":
		goExpr = "-" + srcA
	case "unary!":
		goExpr = "!" + srcA
	case "unary^":
		goExpr = "^" + srcA
	case "unary<-":
		goExpr, goLHS = "<-"+srcA, "_, _"
	case "unary&":
		goExpr = "&" + srcA
	case "binary+":
		goExpr = binary("+")
	case "binary-":
		goExpr = binary("-")
	case "binary<<":
		goExpr = binary("<<")
	case "binary==":
		goExpr = binary("==")
	case "binary<":
		goExpr = binary("<")
	case "binary&&":
		goExpr = binary("&&")
	case "binary%":
		goExpr = binary("%")
	case "member":
		goExpr = srcA + ".X"
	case "call1":
		goExpr = srcA + "(" + operandSrc[vp.Choose("b", 15)] + ")"
	case "call0":
		goExpr = srcA + "()"
	}
	goOK := false
	if goExpr != "" && srcA != "int" {
		fs := token.NewFileSet()
		gf, gerr := parser.ParseFile(fs, "g.go", verifOpsEnv+"\nfunc zz() {\n"+goLHS+" = "+goExpr+"\n}\n", 0)
		if gerr == nil {
			bad := false
			gtc := types.Config{Importer: importer.Default(), Error: func(error) { bad = true }}
			gtc.Check("example.com/p", fs, []*ast.File{gf}, nil)
			goOK = !bad
		}
	}
	vp.Observe("goexpr", goExpr)
	var ret *Element
	class := vp.Try(func() {
		verifC17Operand(cb, pkg, "a")
		switch op {
		case "slice":
			cb.None()
			verifC17Operand(cb, pkg, "b")
			cb.Slice(false)
		case "slice3":
			cb.None()
			verifC17Operand(cb, pkg, "b")
			cb.Val(2).Slice(true)
		case "index":
			verifC17Operand(cb, pkg, "b")
			cb.Index(1, 0)
		case "index2":
			verifC17Operand(cb, pkg, "b")
			cb.Index(1, 2)
		case "star":
			cb.Star()
		case "elem":
			cb.Elem()
		case "assert":
			cb.TypeAssert(tint, 0)
		case "assert2":
			cb.TypeAssert(TyError, 2)
		case "unary-":
			cb.UnaryOp(token.SUB)
		case "unary!":
			cb.UnaryOp(token.NOT)
		case "unary^":
			cb.UnaryOp(token.XOR)
		case "unary<-":
			cb.UnaryOpEx(token.ARROW, 2)
		case "unary&":
			cb.UnaryOp(token.AND)
		case "binary+", "binary-", "binary<<", "binary==", "binary<", "binary&&", "binary%":
			verifC17Operand(cb, pkg, "b")
			cb.BinaryOp(map[string]token.Token{"binary+": token.ADD, "binary-": token.SUB, "binary<<": token.SHL, "binary==": token.EQL, "binary<": token.LSS, "binary&&": token.LAND, "binary%": token.REM}[op])
		case "member":
			cb.MemberVal("X", 0)
		case "call1":
			verifC17Operand(cb, pkg, "b")
			cb.Call(1)
		case "call0":
			cb.Call(0)
		}
		ret = cb.Get(-1)
	})
	vp.Assert("C17.c01ops.nofault", class != vp.FaultPanic)
	if goOK {
		vp.Fact("anyindex", verifB2I(srcA == "e" && (op == "index" || op == "index2" || op == "member")))
		vp.Assert("C02.ops.complete", class == vp.NoPanic)
	}
	if class != vp.NoPanic || ret == nil || ret.Type == nil {
		return
	}
	if _, isType := ret.Type.(*TypeType); isType {
		return // *T built by Star on a type operand: a type expression, not a value
	}
	text := verifExprText(ret)
	vp.Observe("expr", text)
	if strings.Contains(text, "_autoGo_") {
		return // index/member sugar on any: the hoisted assertion statement is not part of the expression
	}
	lhs := "_"
	if t, ok := ret.Type.(*types.Tuple); ok {
		if t.Len() == 0 {
			lhs = ""
		} else {
			lhs = "_" + strings.Repeat(", _", t.Len()-1)
		}
	}
	stmt := lhs + " = " + text
	if lhs == "" {
		stmt = text
	}
	fset := token.NewFileSet()
	f, err := parser.ParseFile(fset, "p.go", verifOpsEnv+"\nfunc zz() {\n"+stmt+"\n}\n", 0)
	ok := err == nil
	msg := ""
	if ok {
		tc := types.Config{Importer: importer.Default(), Error: func(e error) {
			if msg == "" {
				msg = e.Error()
			}
		}}
		tc.Check("example.com/p", fset, []*ast.File{f}, nil)
		ok = msg == ""
	}
	vp.Observe("gotypes", msg)
	vp.Fact("isfloatop", verifB2I(strings.Contains(text, "1.5") && (op == "binary<<" || op == "binary%" || op == "unary^")))
	vp.Fact("addrop", verifB2I(op == "unary&"))
	vp.Fact("constconv", verifB2I(text == "int(1.5)"))
	vp.Assert("C01.ops.sound", ok)
}

// Member lookup on struct types whose embedded fields form a pointer cycle (the only way a struct
// can be recursive): a name found nowhere on the cycle must be reported as undefined, not looked
// for without end. Call depth beyond 150 frames cannot belong to a terminating lookup on these
// three-node graphs and is a fault (vp.DepthIsFault); natively it is the runtime's fatal stack overflow.
func VerifH_C17_cyclicembed() {
	pkg := verifNewPkg()
	tint := types.Typ[types.Int]
	mk := func(name string) *types.Named {
		return types.NewNamed(types.NewTypeName(token.NoPos, pkg.Types, name, nil), nil, nil)
	}
	fld := func(name string, t types.Type, emb bool) *types.Var {
		return types.NewField(token.NoPos, pkg.Types, name, t, emb)
	}
	var root *types.Named
	switch vp.Choose("graph", 4) {
	case 0: // type Node struct{ *Node; val int }
		n := mk("Node")
		n.SetUnderlying(types.NewStruct([]*types.Var{fld("Node", types.NewPointer(n), true), fld("val", tint, false)}, nil))
		root = n
	case 1: // type A struct{ *B }; type B struct{ *A; val int }
		a, b := mk("A"), mk("B")
		a.SetUnderlying(types.NewStruct([]*types.Var{fld("B", types.NewPointer(b), true)}, nil))
		b.SetUnderlying(types.NewStruct([]*types.Var{fld("A", types.NewPointer(a), true), fld("val", tint, false)}, nil))
		root = a
	case 2: // A -> *B -> *C -> *A
		a, b, c := mk("A"), mk("B"), mk("C")
		a.SetUnderlying(types.NewStruct([]*types.Var{fld("B", types.NewPointer(b), true)}, nil))
		b.SetUnderlying(types.NewStruct([]*types.Var{fld("C", types.NewPointer(c), true)}, nil))
		c.SetUnderlying(types.NewStruct([]*types.Var{fld("A", types.NewPointer(a), true), fld("val", tint, false)}, nil))
		root = a
	case 3: // two embedded pointers back to the root: type D struct{ *E; *F }; E, F struct{ *D; val int }
		d, e, f := mk("D"), mk("E"), mk("F")
		d.SetUnderlying(types.NewStruct([]*types.Var{fld("E", types.NewPointer(e), true), fld("F", types.NewPointer(f), true)}, nil))
		e.SetUnderlying(types.NewStruct([]*types.Var{fld("D", types.NewPointer(d), true), fld("val", tint, false)}, nil))
		f.SetUnderlying(types.NewStruct([]*types.Var{fld("D", types.NewPointer(d), true)}, nil))
		root = d
	}
	var operand types.Type = root
	if vp.Choose("ptr", 2) == 1 {
		operand = types.NewPointer(root)
	}
	name := []string{"val", "next", "Val", "x"}[vp.Choose("name", 4)]
	how := vp.Choose("how", 4)
	cb := pkg.NewFunc(nil, "f", nil, nil, false).BodyStart(pkg)
	vp.DepthIsFault(150)
	var kind MemberKind
	class := vp.Try(func() {
		cb.Val(verifNonConst("x", operand))
		switch how {
		case 0:
			kind, _ = cb.Member(name, 0, MemberFlagVal)
		case 1:
			kind, _ = cb.Member(name, 0, MemberFlagMethodAlias)
		case 2:
			kind, _ = cb.Member(name, 0, MemberFlagAutoProperty)
		case 3:
			kind, _ = cb.Member(name, 0, MemberFlagRef)
		}
	})
	vp.DepthIsFault(0)
	vp.Assert("C17.cyclicembed.nofault", class != vp.FaultPanic)
	if class == vp.NoPanic {
		found := name == "val" || (name == "Val" && how != 0 && how != 3 && false)
		if name == "val" {
			vp.Assert("C08.cyclicembed.found", kind != MemberInvalid)
		} else if name == "next" || name == "x" {
			vp.Assert("C08.cyclicembed.undefined", kind == MemberInvalid)
		}
		_ = found
	}
}
