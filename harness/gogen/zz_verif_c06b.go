//go:build verif

package gogen

// C06 (family discovery): an imported XGo package declares an overload family of three candidates
// either through name__N suffixes or through an XGoo_ constant whose entries are explicit names or
// empty (an empty entry at position i stands for name__i), as functions or as methods. The
// package is written as Go source, type-checked by go/types, imported through the real
// Package.Import -> initXGoPkg -> InitXGoPackageEx path, and the family is called with arguments
// of three types. The candidate parameter types overlap (int, any, string in a chosen order), so
// the call must resolve to the lowest-indexed applicable candidate: callee name and result type
// are compared with the reference computed from the declaration.

import (
	"go/ast"
	"go/parser"
	"go/token"
	"go/types"
	"strings"

	"github.com/goplus/gogen/internal/vp"
)

func VerifH_C06_xgopkg() {
	kind := vp.Choose("family", 4) // 0: func name__N; 1: func XGoo_; 2: method XGoo_; 3: method name__N
	perms := [][3]string{{"int", "any", "string"}, {"int", "string", "any"}, {"any", "int", "string"}, {"any", "string", "int"}, {"string", "int", "any"}, {"string", "any", "int"}}
	ptypes := perms[vp.Choose("params", len(perms))]
	isMethod := kind >= 2
	viaConst := kind == 1 || kind == 2
	ncand := 2 + vp.Choose("ncand", 2)
	// names of the candidates
	names := make([]string, ncand)
	explicit := make([]bool, ncand)
	for i := range names {
		names[i] = "Put__" + string(rune('0'+i))
		if viaConst && vp.Choose("explicit"+string(rune('0'+i)), 2) == 1 {
			explicit[i] = true
			names[i] = "PutX" + string(rune('a'+i)) // does not sort like the index order
		}
	}
	if viaConst { // sorted-by-name order of the explicit names differs from the index order
		for i := range names {
			if explicit[i] {
				names[i] = "PutX" + string(rune('a'+ncand-1-i))
			}
		}
	}
	var src strings.Builder
	src.WriteString("package ovl\n\nconst XGoPackage = true\n\ntype R0 int\ntype R1 int\ntype R2 int\ntype Game struct{}\n\n")
	// declarations in reverse index order (scope.Names() sorts anyway)
	for i := ncand - 1; i >= 0; i-- {
		recv := ""
		if isMethod {
			recv = "(g *Game) "
		}
		src.WriteString("func " + recv + names[i] + "(x " + ptypes[i] + ") R" + string(rune('0'+i)) + " { return 0 }\n")
	}
	if viaConst {
		var ents []string
		for i := range names {
			switch {
			case !explicit[i]:
				ents = append(ents, "")
			case isMethod:
				ents = append(ents, "."+names[i])
			default:
				ents = append(ents, names[i])
			}
		}
		cname := "XGoo_Put"
		if isMethod {
			cname = "XGoo_Game_Put"
		}
		src.WriteString("\nconst " + cname + " = \"" + strings.Join(ents, ",") + "\"\n")
	}
	vp.Observe("src", src.String())
	fset := token.NewFileSet()
	f, err := parser.ParseFile(fset, "ovl.go", src.String(), 0)
	vp.Assume(err == nil)
	ovl, err := (&types.Config{}).Check("example.com/ovl", fset, []*ast.File{f}, nil)
	vp.Assume(err == nil)

	conf := &Config{Importer: verifMapImporter{"example.com/ovl": ovl}, HandleErr: func(err error) { panic(err) }}
	pkg := NewPackage("", "main", conf)
	argT := []types.Type{types.Typ[types.Int], types.Typ[types.String], types.Typ[types.Bool]}[vp.Choose("arg", 3)]
	// reference: the lowest index whose parameter accepts the argument
	want := -1
	for i := 0; i < ncand; i++ {
		if ptypes[i] == "any" || ptypes[i] == argT.String() {
			want = i
			break
		}
	}
	var call *Element
	class, perr := vp.TryVal(func() {
		ref := pkg.Import("example.com/ovl")
		cb := pkg.NewFunc(nil, "f", nil, nil, false).BodyStart(pkg)
		if isMethod {
			g := types.NewPointer(ref.Ref("Game").Type())
			cb.Val(verifNonConst("g", g)).MemberVal("Put", 0)
		} else {
			cb.Val(ref.Ref("Put"))
		}
		cb.Val(verifNonConst("x", argT)).Call(1)
		call = cb.Get(-1)
	})
	vp.Assert("C17.xgopkg.nofault", class != vp.FaultPanic)
	vp.Fact("want", want)
	if want < 0 {
		vp.Assert("C06.xgopkg.none.rejected", class != vp.NoPanic)
		return
	}
	if class != vp.NoPanic {
		vp.Observe("error", verifErrText(perr))
	}
	vp.Assert("C06.xgopkg.accepted", class == vp.NoPanic)
	if class != vp.NoPanic {
		return
	}
	text := verifExprText(call)
	vp.Observe("call", text)
	callee := ""
	if ce, ok := call.Val.(*ast.CallExpr); ok {
		if sel, ok := ce.Fun.(*ast.SelectorExpr); ok {
			callee = sel.Sel.Name
		}
	}
	vp.Assert("C06.xgopkg.callee", callee == names[want])
	vp.Assert("C06.xgopkg.resulttype", types.Identical(call.Type, ovl.Scope().Lookup("R"+string(rune('0'+want))).Type()))
	vp.Cover("ALL.xgopkg.end", true)
}
