//go:build verif

package gogen

// C02 (b): statement order kernels; C01-K5/K6: call and return arity; C03-T2..T4: inferred
// declaration types, element types, comma-ok shapes.

import (
	"go/ast"
	"go/constant"
	"go/token"
	"go/types"

	"github.com/goplus/gogen/internal/vp"
)

func verifStmtIDs(n int) []ast.Stmt {
	l := make([]ast.Stmt, n)
	for i := range l {
		l[i] = &ast.ExprStmt{X: &ast.Ident{Name: string(rune('a' + i))}}
	}
	return l
}

func verifStmtName(s ast.Stmt) string {
	if ls, ok := s.(*ast.LabeledStmt); ok {
		return "L:" + verifStmtName(ls.Stmt)
	}
	if es, ok := s.(*ast.ExprStmt); ok {
		if id, ok := es.X.(*ast.Ident); ok {
			return id.Name
		}
	}
	return "?"
}

// S1/S2: deferred commit and MoveLastStmtTo keep every statement exactly once and in order
func VerifH_C02_stmtorder() {
	pkg := verifNewPkg()
	cb := pkg.NewFunc(nil, "f", nil, nil, false).BodyStart(pkg)
	n := vp.Choose("n", 5)
	for _, s := range verifStmtIDs(n) {
		cb.emitStmt(s)
	}
	switch vp.Choose("op", 2) {
	case 0: // startStmtAt ... commitStmt: the started statement ends up last, the others keep their order
		marker := &ast.ExprStmt{X: &ast.Ident{Name: "M"}}
		idx := cb.startStmtAt(marker)
		k := vp.Choose("k", 3)
		for i := 0; i < k; i++ {
			cb.emitStmt(&ast.ExprStmt{X: &ast.Ident{Name: string(rune('x' + i))}})
		}
		cb.commitStmt(idx)
		got := cb.current.stmts
		vp.Assert("C02.commit.len", len(got) == n+k+1)
		if len(got) == n+k+1 {
			vp.Assert("C02.commit.last", verifStmtName(got[n+k]) == "M")
			ok := true
			for i := 0; i < n; i++ {
				ok = ok && verifStmtName(got[i]) == string(rune('a'+i))
			}
			for i := 0; i < k; i++ {
				ok = ok && verifStmtName(got[n+i]) == string(rune('x'+i))
			}
			vp.Assert("C02.commit.order", ok)
		}
	case 1: // MoveLastStmtTo(ip)
		if n == 0 {
			return
		}
		ip := vp.Int("ip", 0, n-1)
		cb.MoveLastStmtTo(ip)
		got := cb.current.stmts
		vp.Assert("C02.move.len", len(got) == n)
		ok := verifStmtName(got[ip]) == string(rune('a'+n-1))
		for i := 0; i < n; i++ {
			want := i
			if i > ip {
				want = i - 1
			}
			if i != ip {
				ok = ok && verifStmtName(got[i]) == string(rune('a'+want))
			}
		}
		vp.Assert("C02.move.order", ok)
	}
}

// S3/S4: if / else-if flattening and operand order of emitted operator and call nodes
func VerifH_C02_shapes() {
	pkg := verifNewPkg()
	cb := pkg.NewFunc(nil, "f", nil, nil, false).BodyStart(pkg)
	tbool := types.Typ[types.Bool]
	switch vp.Choose("shape", 3) {
	case 0: // else branch: exactly one if statement => else-if, otherwise a block
		nelse := vp.Choose("nelse", 3)
		cb.If().Val(verifNonConst("c1", tbool)).Then().Val(verifNonConst("t", types.Typ[types.Int])).EndStmt().Else()
		if nelse >= 1 {
			cb.If().Val(verifNonConst("c2", tbool)).Then().End()
		}
		if nelse == 2 {
			cb.Val(verifNonConst("u", types.Typ[types.Int])).EndStmt()
		}
		cb.End()
		st, ok := cb.current.stmts[len(cb.current.stmts)-1].(*ast.IfStmt)
		vp.Assert("C02.if.emitted", ok)
		if !ok {
			return
		}
		c1, _ := st.Cond.(*ast.Ident)
		vp.Assert("C02.if.cond", c1 != nil && c1.Name == "c1")
		vp.Assert("C02.if.body", len(st.Body.List) == 1)
		switch nelse {
		case 0:
			blk, isBlk := st.Else.(*ast.BlockStmt)
			vp.Assert("C02.if.else.empty", isBlk && len(blk.List) == 0)
		case 1:
			inner, isIf := st.Else.(*ast.IfStmt)
			vp.Assert("C02.if.else.flattened", isIf)
			if isIf {
				c2, _ := inner.Cond.(*ast.Ident)
				vp.Assert("C02.if.else.cond", c2 != nil && c2.Name == "c2")
			}
		case 2:
			blk, isBlk := st.Else.(*ast.BlockStmt)
			vp.Assert("C02.if.else.block", isBlk && len(blk.List) == 2)
		}
	case 1: // binary operator: X is the first operand, Y the second
		op := []token.Token{token.SUB, token.QUO, token.LSS, token.SHL}[vp.Choose("op", 4)]
		cb.Val(verifNonConst("lhs", types.Typ[types.Int])).Val(verifNonConst("rhs", types.Typ[types.Int])).BinaryOp(op)
		be, ok := cb.Get(-1).Val.(*ast.BinaryExpr)
		vp.Assert("C02.binary.node", ok)
		if ok {
			x, _ := be.X.(*ast.Ident)
			y, _ := be.Y.(*ast.Ident)
			vp.Assert("C02.binary.operands", x != nil && y != nil && x.Name == "lhs" && y.Name == "rhs" && be.Op == op)
		}
	case 2: // call: arguments in order
		nargs := vp.Choose("nargs", 4)
		var ps []*types.Var
		for i := 0; i < nargs; i++ {
			ps = append(ps, types.NewParam(token.NoPos, pkg.Types, "p", types.Typ[types.Int]))
		}
		fn := types.NewFunc(token.NoPos, pkg.Types, "callee", types.NewSignatureType(nil, nil, nil, types.NewTuple(ps...), nil, false))
		cb.Val(fn)
		for i := 0; i < nargs; i++ {
			cb.Val(verifNonConst("arg"+string(rune('0'+i)), types.Typ[types.Int]))
		}
		cb.Call(nargs)
		ce, ok := cb.Get(-1).Val.(*ast.CallExpr)
		vp.Assert("C02.call.node", ok && len(ce.Args) == nargs)
		if ok && len(ce.Args) == nargs {
			good := true
			for i, a := range ce.Args {
				id, _ := a.(*ast.Ident)
				good = good && id != nil && id.Name == "arg"+string(rune('0'+i))
			}
			vp.Assert("C02.call.order", good)
		}
	}
}

// K5: call arity, variadic and ellipsis rules
func VerifH_C01_callarity() {
	pkg := verifNewPkg()
	cb := pkg.CB()
	nparams := vp.Choose("nparams", 4)
	variadic := nparams > 0 && vp.Choose("variadic", 2) == 1
	nargs := vp.Choose("nargs", 5)
	ellipsis := vp.Choose("ellipsis", 2) == 1
	tint := types.Typ[types.Int]
	var ps []*types.Var
	for i := 0; i < nparams; i++ {
		var t types.Type = tint
		if variadic && i == nparams-1 {
			t = types.NewSlice(tint)
		}
		ps = append(ps, types.NewParam(token.NoPos, pkg.Types, "p"+string(rune('0'+i)), t))
	}
	fn := types.NewFunc(token.NoPos, pkg.Types, "callee", types.NewSignatureType(nil, nil, nil, types.NewTuple(ps...), nil, variadic))
	class := vp.Try(func() {
		cb.Val(fn)
		for i := 0; i < nargs; i++ {
			var t types.Type = tint
			if ellipsis && i == nargs-1 {
				t = types.NewSlice(tint)
			}
			cb.Val(verifNonConst("a", t))
		}
		cb.Call(nargs, ellipsis)
	})
	vp.Assert("C17.callarity.nofault", class != vp.FaultPanic)
	if class == vp.FaultPanic {
		return
	}
	valid := false
	switch {
	case ellipsis:
		valid = variadic && nargs == nparams
	case variadic:
		valid = nargs >= nparams-1
	default:
		valid = nargs == nparams
	}
	vp.Fact("ellipsis", verifB2I(ellipsis))
	vp.Fact("variadic", verifB2I(variadic))
	if valid {
		vp.Assert("C02.callarity.complete", class == vp.NoPanic)
	} else {
		vp.Assert("C01.callarity.sound", class != vp.NoPanic)
	}
}

// K6: return arity
func VerifH_C01_returnarity() {
	pkg := verifNewPkg()
	need := vp.Choose("need", 4)
	named := vp.Choose("named", 2) == 1
	var rs []*types.Var
	for i := 0; i < need; i++ {
		name := ""
		if named {
			name = "r" + string(rune('0'+i))
		}
		rs = append(rs, types.NewParam(token.NoPos, pkg.Types, name, types.Typ[types.Int]))
	}
	cb := pkg.NewFunc(nil, "f", nil, types.NewTuple(rs...), false).BodyStart(pkg)
	nrets := vp.Choose("nrets", 4)
	class := vp.Try(func() {
		for i := 0; i < nrets; i++ {
			cb.Val(verifNonConst("v", types.Typ[types.Int]))
		}
		cb.Return(nrets)
	})
	vp.Assert("C17.returnarity.nofault", class != vp.FaultPanic)
	if class == vp.FaultPanic {
		return
	}
	valid := nrets == need || (nrets == 0 && named)
	if valid {
		vp.Assert("C02.returnarity.complete", class == vp.NoPanic)
	} else {
		vp.Assert("C01.returnarity.sound", class != vp.NoPanic)
	}
}

// T2: inferred declaration type is the default type of the initialiser
func VerifH_C03_inferred() {
	pkg := verifNewPkg()
	cb := pkg.NewFunc(nil, "f", nil, nil, false).BodyStart(pkg)
	k := []types.BasicKind{types.UntypedInt, types.UntypedRune, types.UntypedFloat, types.UntypedBool, types.UntypedString, types.Int8, types.Uint64}[vp.Choose("k", 7)]
	o := verifOperandOfKind("c", k)
	if k == types.UntypedInt || k == types.UntypedRune {
		vp.Assume(verifRepresentable(o.val, types.Typ[types.Default(types.Typ[k]).(*types.Basic).Kind()].Kind()))
	}
	how := vp.Choose("how", 2)
	class := vp.Try(func() {
		if how == 0 {
			cb.DefineVarStart(token.NoPos, "x").Val(verifElem("c", o)).EndInit(1)
		} else {
			cb.NewVarStart(nil, "x").Val(verifElem("c", o)).EndInit(1)
		}
	})
	vp.Assert("C02.inferred.accepted", class == vp.NoPanic)
	if class != vp.NoPanic {
		return
	}
	obj := cb.Scope().Lookup("x")
	vp.Assert("C03.inferred.declared", obj != nil)
	if obj != nil {
		vp.Assert("C03.inferred.type", types.Identical(obj.Type(), types.Default(types.Typ[k])))
	}
}

// T3/T4: element types of index/slice/deref/range and comma-ok shapes
func VerifH_C03_elemtypes() {
	_, all := verifUniverse("")
	pkg := verifNewPkg()
	cb := pkg.NewFunc(nil, "f", nil, nil, false).BodyStart(pkg)
	T := verifPickType("T", all)
	if it, isI := T.typ.Underlying().(*types.Interface); isI && it.Empty() {
		return // indexing / member access on `any` is a documented extension (C11)
	}
	op := vp.Choose("op", 4)
	var ret *Element
	var class int
	x := &Element{Val: &ast.Ident{Name: T.name}, Type: T.typ}
	switch op {
	case 0: // x[i]
		lhs := vp.Choose("twovalue", 2)
		class = vp.Try(func() {
			cb.Val(x)
			if m, ok := T.typ.Underlying().(*types.Map); ok {
				cb.Val(&Element{Val: &ast.Ident{Name: "k"}, Type: m.Key()})
			} else {
				cb.Val(&Element{Val: &ast.Ident{Name: "i"}, Type: types.Typ[types.Int]})
			}
			cb.Index(1, lhs+1)
			ret = cb.InternalStack().Pop()
		})
		want, ok := verifGoTypeOfExpr(T.name+"[idx]", T.typ)
		if _, isMap := T.typ.Underlying().(*types.Map); lhs == 1 && !isMap {
			ok = false // v, ok := x[i] is only valid for maps
		}
		vp.Fact("twovalue", lhs)
		verifElemCheck("index", class, ret, want, ok, lhs == 1)
	case 1: // x[:]
		class = vp.Try(func() {
			cb.Val(x).None().None().Slice(false)
			ret = cb.InternalStack().Pop()
		})
		want, ok := verifGoTypeOfExpr(T.name+"[:]", T.typ)
		verifElemCheck("slice", class, ret, want, ok, false)
	case 2: // *x
		class = vp.Try(func() {
			cb.Val(x).Star()
			ret = cb.InternalStack().Pop()
		})
		want, ok := verifGoTypeOfExpr("*"+T.name, T.typ)
		verifElemCheck("star", class, ret, want, ok, false)
	case 3: // x.(int) on interfaces
		lhs := vp.Choose("twovalue", 2)
		class = vp.Try(func() {
			cb.Val(x).TypeAssert(types.Typ[types.Int], lhs+1)
			ret = cb.InternalStack().Pop()
		})
		_, isIface := T.typ.Underlying().(*types.Interface)
		okGo := isIface && types.AssertableTo(T.typ.Underlying().(*types.Interface), types.Typ[types.Int])
		verifElemCheck("assert", class, ret, types.Typ[types.Int], okGo, lhs == 1)
	}
}

// verifGoTypeOfExpr asks go/types for the type of an expression over the universe variable.
func verifGoTypeOfExpr(expr string, T types.Type) (types.Type, bool) {
	idx := "0"
	if m, ok := T.Underlying().(*types.Map); ok {
		if b, isB := m.Key().Underlying().(*types.Basic); isB && b.Info()&types.IsString != 0 {
			idx = `""`
		}
	}
	src := ""
	for i := 0; i < len(expr); i++ {
		if i+3 <= len(expr) && expr[i:i+3] == "idx" {
			src += idx
			i += 2
		} else {
			src += string(expr[i])
		}
	}
	return verifGoTypeOf(src)
}

func verifElemCheck(tag string, class int, ret *Element, want types.Type, goOK bool, twoValue bool) {
	vp.Assert("C17.elem."+tag+".nofault", class != vp.FaultPanic)
	if class == vp.FaultPanic {
		return
	}
	accepted := class == vp.NoPanic
	if !goOK {
		vp.Assert("C01.elem."+tag+".sound", !accepted)
		return
	}
	vp.Assert("C02.elem."+tag+".complete", accepted)
	if !accepted {
		return
	}
	got := ret.Type
	if twoValue {
		tp, isT := got.(*types.Tuple)
		vp.Assert("C03.elem."+tag+".commaok", isT && tp.Len() == 2 && types.Identical(tp.At(1).Type(), types.Typ[types.Bool]))
		if !isT || tp.Len() != 2 {
			return
		}
		got = tp.At(0).Type()
	}
	if rt, ok := got.(*refType); ok {
		got = rt.typ
	}
	// the oracle re-checks the universe: named components are compared through go/types' qualified writer
	vp.Assert("C03.elem."+tag+".type", types.TypeString(got, nil) == types.TypeString(want, nil))
}

var _ = constant.MakeInt64
