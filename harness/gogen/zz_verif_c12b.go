//go:build verif

package gogen

// C12 (P4/P5): builder-side parentheses in statement headers and statement comments.

import (
	"bytes"
	"go/ast"
	"go/parser"
	"go/token"
	"go/types"
	"strings"

	"github.com/goplus/gogen/internal/vp"
)

// P5: a comment group pending while statements are emitted is printed exactly once per
// commented statement, directly before it.
func VerifH_C12_comments() {
	pkg := verifNewPkg()
	cb := pkg.NewFunc(nil, "f", nil, nil, false).BodyStart(pkg)
	tint := types.Typ[types.Int]
	n := 1 + vp.Choose("nstmt", 3)
	once := vp.Choose("once", 2) == 1
	at := vp.Choose("at", 3) // the comment is set before statement number `at`
	labelled := vp.Choose("labelled", 2) == 1
	for i := 0; i < n; i++ {
		if i == at {
			cb.SetComments(&ast.CommentGroup{List: []*ast.Comment{{Text: "\n// note"}}}, once)
			if labelled {
				l := cb.NewLabel(token.NoPos, token.NoPos, "L")
				cb.Label(l)
				cb.Goto(l)
			}
		}
		cb.Val(verifNonConst("s"+string(rune('0'+i)), tint)).EndStmt()
	}
	cb.SetComments(nil, false)
	cb.End()
	var buf bytes.Buffer
	err := pkg.WriteTo(&buf)
	vp.Assert("C12.comments.written", err == nil)
	if err != nil {
		return
	}
	text := buf.String()
	vp.Observe("text", text)
	_, perr := parser.ParseFile(token.NewFileSet(), "f.go", text, parser.ParseComments)
	vp.Assert("C12.comments.parses", perr == nil)
	// expected number of printed comments: one per statement emitted while the group was pending
	want := 0
	if at < n {
		if once {
			want = 1
		} else {
			want = n - at
			if labelled {
				want++ // the goto is a statement of its own
			}
		}
	}
	got := strings.Count(text, "// note")
	vp.Fact("labelled", verifB2I(labelled))
	vp.Assert("C12.comments.count", got == want)
	if want > 0 {
		// directly before the first commented statement
		lines := strings.Split(text, "\n")
		ok := false
		for i, l := range lines {
			if strings.TrimSpace(l) == "// note" && i+1 < len(lines) {
				next := strings.TrimSpace(lines[i+1])
				if labelled && once {
					ok = strings.HasPrefix(next, "L:") || strings.HasPrefix(next, "goto")
				} else if labelled {
					ok = strings.HasPrefix(next, "L:") || strings.HasPrefix(next, "goto") || strings.HasPrefix(next, "s")
				} else {
					ok = next == "s"+string(rune('0'+at))
				}
				break
			}
		}
		vp.Assert("C12.comments.position", ok)
	}
}

// P4: a composite literal in a statement header is parenthesised so that the text parses
func VerifH_C12_headerparens() {
	pkg := verifNewPkg()
	cb := pkg.NewFunc(nil, "f", nil, nil, false).BodyStart(pkg)
	st := types.NewStruct([]*types.Var{types.NewField(token.NoPos, pkg.Types, "X", types.Typ[types.Int], false)}, nil)
	nt := types.NewNamed(types.NewTypeName(token.NoPos, pkg.Types, "T", nil), st, nil)
	pkg.Types.Scope().Insert(nt.Obj())
	lit := func() { cb.Val(1).StructLit(nt, 1, false) }
	switch vp.Choose("header", 5) {
	case 0: // if T{1} == T{1} {}
		cb.If()
		lit()
		lit()
		cb.BinaryOp(token.EQL).Then().End()
	case 1: // switch T{1} {}
		cb.Switch()
		lit()
		cb.Then().End()
	case 2: // for T{1} == T{1} {}
		cb.For()
		lit()
		lit()
		cb.BinaryOp(token.EQL).Then().End()
	case 3: // if T{1}.X == 1 {}
		cb.If()
		lit()
		cb.MemberVal("X", 0).Val(1).BinaryOp(token.EQL).Then().End()
	case 4: // for range []T{ {1} } — range over a composite literal
		cb.ForRange("i")
		lit()
		cb.SliceLit(types.NewSlice(nt), 1).RangeAssignThen(token.NoPos).End()
	}
	cb.End()
	var buf bytes.Buffer
	err := pkg.WriteTo(&buf)
	vp.Assert("C12.header.written", err == nil)
	if err != nil {
		return
	}
	text := buf.String()
	vp.Observe("text", text)
	_, perr := parser.ParseFile(token.NewFileSet(), "f.go", "package main\ntype T struct{ X int }\n"+strings.TrimPrefix(text, "package main\n"), 0)
	vp.Assert("C12.header.parses", perr == nil)
}
