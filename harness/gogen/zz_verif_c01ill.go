//go:build verif

package gogen

// C01 over programs: statements that Go rejects (each carries one type error; go/types confirms
// it on every path) are placed in a valid function body and compiled by the front end. The
// builder must report an error for every one of them.

import (
	"go/ast"
	"go/importer"
	"go/parser"
	"go/token"
	"go/types"
	"strings"

	"github.com/goplus/gogen/internal/vp"
)

var verifIllTyped = []string{
	"a = str", "a = fl", "str = a", "ok = a", "a = nil", "p = &a", "s = arr", "m[a] = 1", `m["k"] = str`, "t.X = str",
	"t.Z = 1", "a = p.M(str)", "a = p.M()", "a = p.M(1, 2)", "a = f(1)", "h(a)", "h(str, a)", "g(str)", "a = g(1)", "a, b = g(1)",
	"if a {\n}", "for a {\n}", "if a == str {\n}", "a = a + str", "a = a + fl", "ok = a < str", "str = -str", "ok = !a", "fl = ^fl", "a = a << fl",
	"a = s[str]", "a = s[1:2]", "a = arr[5]", "a = *a", "a = *p", "ch <- str", "str = <-ch", "a = <-a", "var x int = str\n_ = x", "x := nil\n_ = x",
	"var rc <-chan int = ch\nrc <- 1", "var sc chan<- int = ch\na = <-sc", "str++", "ok++", "a += str", `str -= "x"`, "for range fl {\n}", "for i := range ok {\n_ = i\n}", "switch a {\ncase str:\n}", "switch a.(type) {\n}",
	"_ = a.(int)", "_ = p.(T)", "z := T{X: str}\n_ = z", "z := T{1, nil, 3}\n_ = z", "z := T{Z: 1}\n_ = z", "z := []int{str}\n_ = z", "z := map[string]int{1: 1}\n_ = z", "z := [2]int{1, 2, 3}\n_ = z", "return 1",
	"defer a", "go str", "a = func() {}()", "var x T = p\n_ = x", "a = len(a)", "a = cap(m)", "s = append(s, str)", "s = append(a, 1)", "copy(s, m)", "delete(s, 1)",
	"delete(m, a)", "a = int(str)", "str = string(fl)", "p = (*T)(pa)", "ok = p == t", "ok = t == t", "ok = s == s", "ok = f == f", "a = t", "t = T{}.X",
	"a = p.X.Y", "a = s.X", "a = arr.len", "p.M = nil", "a = (1 + str)", `str = "a" + 1`, "fl = fl % 2.0", "a = a / str", "ok = ok && a", "ok = a || ok",
	"pa = &s", "a = pa[str]", "e = e + 1", "a = e", "var x, y int = 1\n_, _ = x, y", "x, y := 1\n_, _ = x, y", "a, b = 1", "a = 1, 2", "f = h", "f = func(x int) int { return str }",
	"n := \"s\"\nn, err := g(1)\n_, _ = n, err", "n := 1.5\nn, ok2 := m[\"k\"]\n_, _ = n, ok2", "n := \"s\"\nn, more := <-ch\n_, _ = n, more", "n := 1\nn, isS := e.(string)\n_, _ = n, isS", "n := 1\nn, q := \"s\", 2\n_, _ = n, q",
	"x := 1\nx := 2\n_ = x", "var x int\nvar x string\n_ = x", "break", "continue", "switch a {\ncase 1:\ncase 1:\n}", "switch e.(type) {\ncase int:\ncase int:\n}", "switch a {\ncase 1:\nfallthrough\n}", "switch e.(type) {\ncase int:\nfallthrough\ndefault:\n}", "_ = &m[\"k\"]",
	"a = a / 0", "a = a % 0", "a = a << -1", "a = 1 << 100", "a = len(5)", "a = cap(str)", "close(a)", "var rc <-chan int = ch\nclose(rc)", "s = append(1, 2)", "a = copy(str, s)",
	"a()", "t()", "a = T{}.M(1)", "T{}.X = 1", "mt := map[string]T{}\nmt[\"k\"].X = 1", "str[0] = 'x'", "var x = h(1, str)\n_ = x", "a = h(1, str)", "go h", "defer h",
	"for i := 0; i < 2; i++ {\n}\n_ = i", "if x := 1; ok {\n}\n_ = x", "goto L9\nx := 1\n_ = x\nL9:\na++", "_ = &1", "_ = *nil", "a = nil + 1", "ok = nil == nil", "a = s", "s = nil + s",
	"var x [2]int = [3]int{}\n_ = x", "pa = &arr[0]", "a = arr[-1]", "s = s[2:1]", "s = s[:3:2]", "str = str[::1]", "a = m.k.j", "for a, b = range 5 {\n}", "for i, v := range ch {\n_, _ = i, v\n}", "for i := range f {\n_ = i\n}",
	"a = func() int { return }()", "ch = make(chan string)", "s = make([]int)", "m = make(map[string]int, str)", "p = new(int)", "a = new(int)", "pa = &[3]int{}", "s = []string{}", "m = map[string]string{}", "e.M()",
}

func VerifH_C01_illtyped() {
	n := len(verifIllTyped)
	stmt := verifIllTyped[vp.Choose("stmt", n)]
	ctx := vp.Choose("ctx", 4)
	body := stmt
	switch ctx {
	case 1:
		body = "if ok {\n" + stmt + "\n}"
	case 2:
		body = "for i := 0; i < 2; i++ {\nswitch {\ncase ok:\n" + stmt + "\n}\n}"
	case 3:
		body = "func() {\n" + stmt + "\n}()"
	}
	if strings.HasPrefix(stmt, "return ") && ctx == 3 {
		body = "func() {\n" + stmt + "\n}()" // the closure has no result either
	}
	vp.Observe("body", body)
	src := verifRTHeader + "\nfunc body() {\n" + body + "\nb = 7\n}\n"
	fset := token.NewFileSet()
	file, err := parser.ParseFile(fset, "p.go", src, 0)
	vp.Assume(err == nil)
	nerr := 0
	firstMsg := ""
	tc := types.Config{Importer: importer.Default(), Error: func(err error) {
		msg := err.Error()
		if strings.Contains(msg, "declared and not used") || strings.Contains(msg, "imported and not used") {
			return
		}
		if nerr == 0 {
			firstMsg = msg
		}
		nerr++
	}}
	upkg, _ := tc.Check("example.com/p", fset, []*ast.File{file}, nil)
	// a few statements are legal in some contexts (break inside the loop context): those combinations
	// are not part of the claim
	vp.Assume(nerr > 0)
	vp.Cover("ALL.illtyped.reached", true)
	vp.Observe("goerror", firstMsg)
	orig := verifFindFunc(file, "body")
	conf := &Config{Types: upkg, Importer: verifImporter{}, HandleErr: func(err error) { panic(err) }}
	pkg := NewPackage("", "p", conf)
	fe := &verifFE{pkg: pkg, labels: map[string]*Label{}}
	class, perr := vp.TryVal(func() {
		fe.cb = pkg.NewFunc(nil, "body2", nil, nil, false).BodyStart(pkg)
		fe.declareLabels(orig.Body.List)
		fe.stmts(orig.Body.List)
		fe.cb.End()
	})
	vp.Assert("C17.illtyped.nofault", class != vp.FaultPanic)
	if _, feLimit := perr.(verifErr); feLimit {
		vp.Note("front end cannot express this statement: " + string(perr.(verifErr)))
		return
	}
	vp.Fact("floatintop", verifB2I(stmt == "fl = ^fl" || stmt == "fl = fl % 2.0"))
	placement := false
	for _, x := range []string{"break", "continue", "switch a {\ncase 1:\ncase 1:\n}", "switch e.(type) {\ncase int:\ncase int:\n}", "switch a {\ncase 1:\nfallthrough\n}", "goto L9\nx := 1\n_ = x\nL9:\na++"} {
		placement = placement || stmt == x
	}
	vp.Fact("placement", verifB2I(placement))
	addr := false
	for _, x := range []string{"_ = &m[\"k\"]", "_ = &1", "a = T{}.M(1)", "T{}.X = 1", "mt := map[string]T{}\nmt[\"k\"].X = 1"} {
		addr = addr || stmt == x
	}
	vp.Fact("addressability", verifB2I(addr))
	vp.Assert("C01.illtyped.rejected", class != vp.NoPanic)
}
