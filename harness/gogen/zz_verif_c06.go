//go:build verif

package gogen

// C06: overload resolution picks the first applicable candidate and leaves no residue.
// Self-composition: the family call is compared with calls of each candidate alone
// (the same real matching code), for symbolic untyped-constant arguments.

import (
	"go/ast"
	"go/constant"
	"go/token"
	"go/types"
	"strings"

	"github.com/goplus/gogen/internal/vp"
)

// (TyEmptyInterface is assigned in an init function: build the list at run time)
func verifOvParamTypes() []types.Type {
	l := []types.Type{types.Typ[types.Int8], types.Typ[types.Int], types.Typ[types.Float64], types.Typ[types.String], TyEmptyInterface}
	if vp.Thorough() {
		l = append(l, types.Typ[types.Uint8])
	}
	return l
}

var verifOvResults = []types.Type{types.Typ[types.Bool], types.Typ[types.Int16], types.Typ[types.Uint32]}

type verifArgSpec struct {
	typed bool
	typ   types.Type
	kind  types.BasicKind
	val   constant.Value
}

func verifMkArg(name string, s verifArgSpec) *Element {
	if s.typed {
		return &Element{Val: &ast.Ident{Name: name}, Type: s.typ}
	}
	return &Element{Val: &ast.BasicLit{Kind: token.INT, Value: name}, Type: types.Typ[s.kind], CVal: s.val}
}

func verifChooseArg(name string) verifArgSpec {
	pts := verifOvParamTypes()
	n := len(pts)
	c := vp.Choose(name+".form", n+3)
	if c < n {
		return verifArgSpec{typed: true, typ: pts[c]}
	}
	k := []types.BasicKind{types.UntypedInt, types.UntypedFloat, types.UntypedString}[c-n]
	return verifArgSpec{kind: k, val: verifOperandOfKind(name, k).val}
}

func verifExprKey(e ast.Expr) string {
	switch x := e.(type) {
	case *ast.Ident:
		return "id:" + x.Name
	case *ast.BasicLit:
		return "lit:" + x.Value
	case *ast.CallExpr:
		s := "call:" + verifExprKey(x.Fun) + "("
		for _, a := range x.Args {
			s += verifExprKey(a) + ","
		}
		return s + ")"
	case *ast.SelectorExpr:
		return verifExprKey(x.X) + "." + x.Sel.Name
	case *ast.ParenExpr:
		return "(" + verifExprKey(x.X) + ")"
	case nil:
		return "nil"
	}
	return "other"
}

type verifCallResult struct {
	ok      bool
	callee  string
	retType types.Type
	argKeys []string
	argTyps []types.Type
	fault   bool
}

// verifCall calls fn (an object of pkg's scope) with fresh argument elements through the real builder.
func verifCall(pkg *Package, fn types.Object, specs []verifArgSpec) (r verifCallResult) {
	cb := pkg.CB()
	args := make([]*Element, len(specs))
	for i, s := range specs {
		args[i] = verifMkArg("a"+string(rune('0'+i)), s)
	}
	var ret *Element
	class := vp.Try(func() {
		cb.Val(fn)
		for _, a := range args {
			cb.Val(a)
		}
		cb.Call(len(args))
		ret = cb.InternalStack().Pop()
	})
	r.fault = class == vp.FaultPanic
	r.ok = class == vp.NoPanic
	for _, a := range args {
		r.argKeys = append(r.argKeys, verifExprKey(a.Val))
		r.argTyps = append(r.argTyps, a.Type)
	}
	if r.ok {
		r.retType = ret.Type
		if call, isCall := ret.Val.(*ast.CallExpr); isCall {
			r.callee = verifExprKey(call.Fun)
			r.argKeys = nil
			for _, a := range call.Args {
				r.argKeys = append(r.argKeys, verifExprKey(a))
			}
		}
	}
	return
}

func VerifH_C06_overload() {
	ncand := 1 + vp.Choose("ncand", 3)
	arity := 1
	if vp.Thorough() {
		arity = 1 + vp.Choose("arity", 2)
	}
	pts := verifOvParamTypes()
	type cand struct {
		params []types.Type
		result types.Type
	}
	cands := make([]cand, ncand)
	for i := range cands {
		s := string(rune('0' + i))
		cands[i].params = append(cands[i].params, pts[vp.Choose("p"+s, len(pts))])
		if arity == 2 {
			cands[i].params = append(cands[i].params, []types.Type{types.Typ[types.Int], types.Typ[types.String]}[vp.Choose("q"+s, 2)])
		}
		cands[i].result = verifOvResults[i]
	}
	specs := []verifArgSpec{verifChooseArg("x")}
	if arity == 2 {
		specs = append(specs, []verifArgSpec{{typed: true, typ: types.Typ[types.Int]}, {typed: true, typ: types.Typ[types.String]}, {kind: types.UntypedInt, val: constant.MakeInt64(7)}}[vp.Choose("y.form", 3)])
	}
	mkFunc := func(pkg *Package, name string, c cand) *types.Func {
		var ps []*types.Var
		for j, t := range c.params {
			ps = append(ps, types.NewParam(token.NoPos, pkg.Types, "p"+string(rune('0'+j)), t))
		}
		sig := types.NewSignatureType(nil, nil, nil, types.NewTuple(ps...), types.NewTuple(types.NewParam(token.NoPos, pkg.Types, "", c.result)), false)
		f := types.NewFunc(token.NoPos, pkg.Types, name, sig)
		pkg.Types.Scope().Insert(f)
		return f
	}
	// each candidate alone
	single := make([]verifCallResult, ncand)
	for i, c := range cands {
		p := verifNewPkg()
		single[i] = verifCall(p, mkFunc(p, "f__"+string(rune('0'+i)), c), specs)
		vp.Assert("C17.c06.single.nofault", !single[i].fault)
	}
	// the family
	pkg := verifNewPkg()
	var fns []types.Object
	for i, c := range cands {
		fns = append(fns, mkFunc(pkg, "f__"+string(rune('0'+i)), c))
	}
	ov := NewOverloadFunc(token.NoPos, pkg.Types, "f", fns...)
	pkg.Types.Scope().Insert(ov)
	fam := verifCall(pkg, ov, specs)
	vp.Assert("C17.c06.family.nofault", !fam.fault)
	first := -1
	for i := range single {
		if single[i].ok {
			first = i
			break
		}
	}
	vp.Fact("first", first)
	if first < 0 {
		vp.Assert("C06.none.rejected", !fam.ok)
		return
	}
	vp.Assert("C06.first.accepted", fam.ok)
	if !fam.ok {
		return
	}
	want := single[first]
	vp.Assert("C06.first.callee", fam.callee == want.callee)
	vp.Assert("C06.first.rettype", types.Identical(fam.retType, want.retType))
	same := len(fam.argKeys) == len(want.argKeys)
	for i := 0; same && i < len(want.argKeys); i++ {
		same = fam.argKeys[i] == want.argKeys[i]
	}
	vp.Assert("C06.noresidue.args", same)
	for i := range want.argTyps {
		vp.Assert("C06.noresidue.types", types.Identical(fam.argTyps[i], want.argTyps[i]))
	}
	vp.Cover("ALL.c06.second", first >= 1)
}

// index characters of overload suffixes
func VerifH_C06_toIndex() {
	c := vp.Byte("c")
	var idx int
	class := vp.Try(func() { idx = toIndex(c) })
	isDigit := c >= '0' && c <= '9'
	isLower := c >= 'a' && c <= 'z'
	if isDigit {
		vp.Assert("C06.toindex.digit", class == vp.NoPanic && idx == int(c-'0'))
	} else if isLower {
		vp.Assert("C06.toindex.lower", class == vp.NoPanic && idx == 10+int(c-'a'))
	} else {
		vp.Assert("C06.toindex.reject", class != vp.NoPanic && class != vp.FaultPanic)
	}
}

// Candidates whose failed attempt mutates an argument: a generic function value is instantiated in
// place while matching the first parameter, the second argument then decides applicability.
func VerifH_C06_residue() {
	mkGeneric := func(pkg *Package) *types.Func {
		tp := types.NewTypeParam(types.NewTypeName(token.NoPos, pkg.Types, "T", nil), types.NewInterfaceType(nil, nil))
		sig := types.NewSignatureType(nil, nil, []*types.TypeParam{tp},
			types.NewTuple(types.NewParam(token.NoPos, pkg.Types, "v", tp)), types.NewTuple(types.NewParam(token.NoPos, pkg.Types, "", tp)), false)
		f := types.NewFunc(token.NoPos, pkg.Types, "id", sig)
		pkg.Types.Scope().Insert(f)
		return f
	}
	fnOf := func(pkg *Package, t types.Type) types.Type {
		return types.NewSignatureType(nil, nil, nil, types.NewTuple(types.NewParam(token.NoPos, pkg.Types, "", t)), types.NewTuple(types.NewParam(token.NoPos, pkg.Types, "", t)), false)
	}
	elemTypes := []types.Type{types.Typ[types.Int], types.Typ[types.String], types.Typ[types.Int8]}
	secondTypes := []types.Type{types.Typ[types.String], types.Typ[types.Int], types.Typ[types.Bool]}
	ncand := 2 + vp.Choose("ncand", 2)
	type cand struct{ e, s int }
	cands := make([]cand, ncand)
	for i := range cands {
		cands[i] = cand{vp.Choose("e"+string(rune('0'+i)), 3), vp.Choose("s"+string(rune('0'+i)), 3)}
	}
	second := verifArgSpec{typed: true, typ: secondTypes[vp.Choose("y", 3)]}
	mkFunc := func(pkg *Package, name string, c cand) *types.Func {
		ps := types.NewTuple(types.NewParam(token.NoPos, pkg.Types, "f", fnOf(pkg, elemTypes[c.e])), types.NewParam(token.NoPos, pkg.Types, "y", secondTypes[c.s]))
		sig := types.NewSignatureType(nil, nil, nil, ps, types.NewTuple(types.NewParam(token.NoPos, pkg.Types, "", verifOvResults[0])), false)
		f := types.NewFunc(token.NoPos, pkg.Types, name, sig)
		pkg.Types.Scope().Insert(f)
		return f
	}
	call := func(pkg *Package, fn types.Object) (r verifCallResult) {
		cb := pkg.CB()
		g := mkGeneric(pkg)
		var ret *Element
		class := vp.Try(func() {
			cb.Val(fn).Val(g).Val(verifMkArg("y", second)).Call(2)
			ret = cb.InternalStack().Pop()
		})
		r.fault = class == vp.FaultPanic
		r.ok = class == vp.NoPanic
		if r.ok {
			if c, isCall := ret.Val.(*ast.CallExpr); isCall {
				r.callee = verifExprKey(c.Fun)
				for _, a := range c.Args {
					r.argKeys = append(r.argKeys, verifExprKey(a))
				}
			}
		}
		return
	}
	single := make([]verifCallResult, ncand)
	for i, c := range cands {
		p := verifNewPkg()
		single[i] = call(p, mkFunc(p, "f__"+string(rune('0'+i)), c))
		vp.Assert("C17.c06.residue.nofault", !single[i].fault)
	}
	pkg := verifNewPkg()
	var fns []types.Object
	for i, c := range cands {
		fns = append(fns, mkFunc(pkg, "f__"+string(rune('0'+i)), c))
	}
	ov := NewOverloadFunc(token.NoPos, pkg.Types, "f", fns...)
	pkg.Types.Scope().Insert(ov)
	fam := call(pkg, ov)
	first := -1
	for i := range single {
		if single[i].ok {
			first = i
			break
		}
	}
	if first < 0 {
		vp.Assert("C06.residue.none", !fam.ok)
		return
	}
	vp.Assert("C06.residue.accepted", fam.ok)
	if fam.ok {
		vp.Assert("C06.residue.callee", fam.callee == single[first].callee)
		same := len(fam.argKeys) == len(single[first].argKeys)
		for i := 0; same && i < len(fam.argKeys); i++ {
			same = fam.argKeys[i] == single[first].argKeys[i]
		}
		vp.Assert("C06.residue.args", same)
	}
	vp.Cover("ALL.c06.residue.later", first >= 1)
}

// Overloaded methods (the TyOverloadMethod arm): same self-composition on a receiver value.
func VerifH_C06_methods() {
	ncand := 2 + vp.Choose("ncand", 2)
	pts := verifOvParamTypes()
	type cand struct {
		param  types.Type
		result types.Type
	}
	cands := make([]cand, ncand)
	for i := range cands {
		cands[i] = cand{pts[vp.Choose("p"+string(rune('0'+i)), len(pts))], verifOvResults[i]}
	}
	spec := verifChooseArg("x")
	ptrRecv := vp.Thorough() && vp.Choose("ptrrecv", 2) == 1
	mkType := func(pkg *Package) *types.Named {
		return types.NewNamed(types.NewTypeName(token.NoPos, pkg.Types, "T", nil), types.NewStruct(nil, nil), nil)
	}
	mkMethod := func(pkg *Package, t *types.Named, name string, c cand) *types.Func {
		var rt types.Type = t
		if ptrRecv {
			rt = types.NewPointer(t)
		}
		recv := types.NewVar(token.NoPos, pkg.Types, "recv", rt)
		sig := types.NewSignatureType(recv, nil, nil, types.NewTuple(types.NewParam(token.NoPos, pkg.Types, "a", c.param)), types.NewTuple(types.NewParam(token.NoPos, pkg.Types, "", c.result)), false)
		m := types.NewFunc(token.NoPos, pkg.Types, name, sig)
		t.AddMethod(m)
		return m
	}
	call := func(pkg *Package, t *types.Named, name string) (r verifCallResult) {
		cb := pkg.CB()
		var recvT types.Type = t
		if ptrRecv {
			recvT = types.NewPointer(t)
		}
		arg := verifMkArg("a0", spec)
		var ret *Element
		class := vp.Try(func() {
			cb.Val(verifNonConst("v", recvT)).MemberVal(name, 0).Val(arg).Call(1)
			ret = cb.InternalStack().Pop()
		})
		r.fault = class == vp.FaultPanic
		r.ok = class == vp.NoPanic
		if r.ok {
			r.retType = ret.Type
			if c, isCall := ret.Val.(*ast.CallExpr); isCall {
				r.callee = verifExprKey(c.Fun)
				for _, a := range c.Args {
					r.argKeys = append(r.argKeys, verifExprKey(a))
				}
			}
		}
		return
	}
	single := make([]verifCallResult, ncand)
	for i, c := range cands {
		p := verifNewPkg()
		t := mkType(p)
		name := "m__" + string(rune('0'+i))
		mkMethod(p, t, name, c)
		single[i] = call(p, t, name)
		vp.Assert("C17.c06.methods.single.nofault", !single[i].fault)
	}
	pkg := verifNewPkg()
	t := mkType(pkg)
	var ms []types.Object
	for i, c := range cands {
		ms = append(ms, mkMethod(pkg, t, "m__"+string(rune('0'+i)), c))
	}
	NewOverloadMethod(t, token.NoPos, pkg.Types, "m", ms...)
	fam := call(pkg, t, "m")
	vp.Assert("C17.c06.methods.family.nofault", !fam.fault)
	first := -1
	for i := range single {
		if single[i].ok {
			first = i
			break
		}
	}
	if first < 0 {
		vp.Assert("C06.methods.none.rejected", !fam.ok)
		return
	}
	vp.Assert("C06.methods.first.accepted", fam.ok)
	if !fam.ok {
		return
	}
	vp.Assert("C06.methods.first.callee", fam.callee == single[first].callee)
	vp.Assert("C06.methods.first.rettype", types.Identical(fam.retType, single[first].retType))
	same := len(fam.argKeys) == len(single[first].argKeys)
	for i := 0; same && i < len(fam.argKeys); i++ {
		same = fam.argKeys[i] == single[first].argKeys[i]
	}
	vp.Assert("C06.methods.noresidue.args", same)
	vp.Cover("ALL.c06.methods.later", first >= 1)
}

// Residue that keeps the argument's type: an implicit T_Init conversion performed while matching a
// rejected candidate rewrites the argument expression only.
func VerifH_C06_initresidue() {
	tint := types.Typ[types.Int]
	setup := func(pkg *Package) *types.Named {
		t := types.NewNamed(types.NewTypeName(token.NoPos, pkg.Types, "T", nil), types.NewStruct(nil, nil), nil)
		pkg.Types.Scope().Insert(t.Obj())
		sig := types.NewSignatureType(nil, nil, nil, types.NewTuple(types.NewParam(token.NoPos, pkg.Types, "v", tint)), types.NewTuple(types.NewParam(token.NoPos, pkg.Types, "", t)), false)
		pkg.Types.Scope().Insert(types.NewFunc(token.NoPos, pkg.Types, "T_Init", sig))
		return t
	}
	second := []types.Type{types.Typ[types.String], tint, types.Typ[types.Bool]}
	ncand := 2 + vp.Choose("ncand", 2)
	type cand struct {
		firstIsT bool
		s        int
	}
	cands := make([]cand, ncand)
	for i := range cands {
		cands[i] = cand{vp.Choose("t"+string(rune('0'+i)), 2) == 1, vp.Choose("s"+string(rune('0'+i)), 3)}
	}
	y := second[vp.Choose("y", 3)]
	mkFunc := func(pkg *Package, t *types.Named, name string, c cand) *types.Func {
		var first types.Type = tint
		if c.firstIsT {
			first = t
		}
		ps := types.NewTuple(types.NewParam(token.NoPos, pkg.Types, "a", first), types.NewParam(token.NoPos, pkg.Types, "b", second[c.s]))
		f := types.NewFunc(token.NoPos, pkg.Types, name, types.NewSignatureType(nil, nil, nil, ps, nil, false))
		pkg.Types.Scope().Insert(f)
		return f
	}
	call := func(pkg *Package, fn types.Object) (r verifCallResult) {
		cb := pkg.CB()
		var ret *Element
		class := vp.Try(func() {
			cb.Val(fn).Val(verifNonConst("x", tint)).Val(verifNonConst("y", y)).Call(2)
			ret = cb.InternalStack().Pop()
		})
		r.fault = class == vp.FaultPanic
		r.ok = class == vp.NoPanic
		if r.ok {
			if c, isCall := ret.Val.(*ast.CallExpr); isCall {
				r.callee = verifExprKey(c.Fun)
				for _, a := range c.Args {
					r.argKeys = append(r.argKeys, verifExprKey(a))
				}
			}
		}
		return
	}
	single := make([]verifCallResult, ncand)
	for i, c := range cands {
		p := verifNewPkg()
		t := setup(p)
		single[i] = call(p, mkFunc(p, t, "f__"+string(rune('0'+i)), c))
		vp.Assert("C17.c06.initresidue.nofault", !single[i].fault)
	}
	pkg := verifNewPkg()
	t := setup(pkg)
	var fns []types.Object
	for i, c := range cands {
		fns = append(fns, mkFunc(pkg, t, "f__"+string(rune('0'+i)), c))
	}
	ov := NewOverloadFunc(token.NoPos, pkg.Types, "f", fns...)
	pkg.Types.Scope().Insert(ov)
	fam := call(pkg, ov)
	first := -1
	for i := range single {
		if single[i].ok {
			first = i
			break
		}
	}
	if first < 0 {
		vp.Assert("C06.initresidue.none", !fam.ok)
		return
	}
	vp.Assert("C06.initresidue.accepted", fam.ok)
	if fam.ok {
		vp.Assert("C06.initresidue.callee", fam.callee == single[first].callee)
		same := len(fam.argKeys) == len(single[first].argKeys)
		for i := 0; same && i < len(fam.argKeys); i++ {
			same = fam.argKeys[i] == single[first].argKeys[i]
		}
		vp.Assert("C06.initresidue.args", same)
	}
	vp.Cover("ALL.c06.initresidue.later", first >= 1)
}

// Overloaded operators on named types (XGo_Add family reached through BinaryOp, XGo_Neg through
// UnaryOp): the first applicable candidate is called with its result type; if none applies the
// operation is rejected (also when the underlying type has the builtin operator).
func VerifH_C06_operators() {
	ncand := 2 + vp.Choose("ncand", 2)
	pts := verifOvParamTypes()
	type cand struct {
		param  types.Type
		result types.Type
	}
	cands := make([]cand, ncand)
	for i := range cands {
		cands[i] = cand{pts[vp.Choose("p"+string(rune('0'+i)), len(pts))], verifOvResults[i]}
	}
	basicUnder := vp.Choose("under", 2) == 1
	self := vp.Choose("selfarg", 4) == 3 // a + a
	spec := verifArgSpec{}
	if !self {
		spec = verifChooseArg("x")
	}
	mkType := func(pkg *Package) *types.Named {
		var u types.Type = types.NewStruct(nil, nil)
		if basicUnder {
			u = types.Typ[types.Int]
		}
		return types.NewNamed(types.NewTypeName(token.NoPos, pkg.Types, "N", nil), u, nil)
	}
	mkMethod := func(pkg *Package, t *types.Named, name string, c cand) *types.Func {
		recv := types.NewVar(token.NoPos, pkg.Types, "recv", t)
		sig := types.NewSignatureType(recv, nil, nil, types.NewTuple(types.NewParam(token.NoPos, pkg.Types, "b", c.param)), types.NewTuple(types.NewParam(token.NoPos, pkg.Types, "", c.result)), false)
		m := types.NewFunc(token.NoPos, pkg.Types, name, sig)
		t.AddMethod(m)
		return m
	}
	apply := func(pkg *Package, t *types.Named) (r verifCallResult) {
		cb := pkg.CB()
		var ret *Element
		class := vp.Try(func() {
			cb.Val(verifNonConst("a", t))
			if self {
				cb.Val(verifNonConst("a", t))
			} else {
				cb.Val(verifMkArg("a0", spec))
			}
			cb.BinaryOp(token.ADD)
			ret = cb.InternalStack().Pop()
		})
		r.fault = class == vp.FaultPanic
		r.ok = class == vp.NoPanic
		if r.ok {
			r.retType = ret.Type
			if c, isCall := ret.Val.(*ast.CallExpr); isCall {
				r.callee = verifExprKey(c.Fun)
				for _, a := range c.Args {
					r.argKeys = append(r.argKeys, verifExprKey(a))
				}
			} else {
				r.callee = "<builtin operator>"
			}
		}
		return
	}
	// reference: each candidate alone as the (non-overloaded) operator method
	single := make([]verifCallResult, ncand)
	for i, c := range cands {
		p := verifNewPkg()
		t := mkType(p)
		mkMethod(p, t, "XGo_Add", c)
		single[i] = apply(p, t)
		vp.Assert("C17.c06.operators.single.nofault", !single[i].fault)
	}
	pkg := verifNewPkg()
	t := mkType(pkg)
	var ms []types.Object
	for i, c := range cands {
		ms = append(ms, mkMethod(pkg, t, "XGo_Add__"+string(rune('0'+i)), c))
	}
	NewOverloadMethod(t, token.NoPos, pkg.Types, "XGo_Add", ms...)
	fam := apply(pkg, t)
	vp.Assert("C17.c06.operators.family.nofault", !fam.fault)
	first := -1
	for i := range single {
		if single[i].ok && single[i].callee != "<builtin operator>" {
			first = i
			break
		}
	}
	vp.FactBool("basicunder", basicUnder)
	if first < 0 {
		vp.Assert("C06.operators.none.rejected", !fam.ok)
		return
	}
	vp.Assert("C06.operators.first.accepted", fam.ok)
	if !fam.ok {
		return
	}
	want := strings.Replace(single[first].callee, "XGo_Add", "XGo_Add__"+string(rune('0'+first)), 1)
	vp.Observe("callee.got", fam.callee)
	vp.Observe("callee.want", want)
	vp.Assert("C06.operators.first.callee", fam.callee == want)
	vp.Assert("C06.operators.first.rettype", types.Identical(fam.retType, single[first].retType))
	same := len(fam.argKeys) == len(single[first].argKeys)
	for i := 0; same && i < len(fam.argKeys); i++ {
		same = fam.argKeys[i] == single[first].argKeys[i]
	}
	vp.Assert("C06.operators.noresidue.args", same)
	vp.Cover("ALL.c06.operators.later", first >= 1)
}

// Overloaded unary operators: a family of parameterless candidates resolves to candidate 0.
func VerifH_C06_unaryoperators() {
	ncand := 1 + vp.Choose("ncand", 3)
	pkg := verifNewPkg()
	var u types.Type = types.NewStruct(nil, nil)
	if vp.Choose("under", 2) == 1 {
		u = types.Typ[types.Int]
	}
	t := types.NewNamed(types.NewTypeName(token.NoPos, pkg.Types, "N", nil), u, nil)
	var ms []types.Object
	for i := 0; i < ncand; i++ {
		recv := types.NewVar(token.NoPos, pkg.Types, "recv", t)
		sig := types.NewSignatureType(recv, nil, nil, nil, types.NewTuple(types.NewParam(token.NoPos, pkg.Types, "", verifOvResults[i])), false)
		name := "XGo_Neg"
		if ncand > 1 {
			name += "__" + string(rune('0'+i))
		}
		m := types.NewFunc(token.NoPos, pkg.Types, name, sig)
		t.AddMethod(m)
		ms = append(ms, m)
	}
	if ncand > 1 {
		NewOverloadMethod(t, token.NoPos, pkg.Types, "XGo_Neg", ms...)
	}
	vp.Fact("ncand", ncand)
	cb := pkg.CB()
	var ret *Element
	class := vp.Try(func() {
		cb.Val(verifNonConst("a", t)).UnaryOp(token.SUB)
		ret = cb.InternalStack().Pop()
	})
	vp.Assert("C17.c06.unaryoperators.nofault", class != vp.FaultPanic)
	vp.Assert("C06.unaryoperators.accepted", class == vp.NoPanic)
	if class != vp.NoPanic {
		return
	}
	vp.Assert("C06.unaryoperators.rettype", types.Identical(ret.Type, verifOvResults[0]))
	c, isCall := ret.Val.(*ast.CallExpr)
	vp.Assert("C06.unaryoperators.call", isCall)
	if isCall {
		key := verifExprKey(c.Fun)
		want := "XGo_Neg"
		if ncand > 1 {
			want = "XGo_Neg__0"
		}
		vp.Assert("C06.unaryoperators.callee", strings.HasSuffix(key, "."+want))
	}
}
