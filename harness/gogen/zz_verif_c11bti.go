//go:build verif

package gogen

// C11: methods on builtin types. For every receiver form and every registered method the member
// access plus call lowers to the documented library or builtin call with the receiver as first
// argument (converted to the basic type for named receivers), the user's arguments after it and
// the registered extra arguments last; the emitted statement type-checks against the library's
// signatures and has the library function's result types.

import (
	"bytes"
	"go/ast"
	"go/parser"
	"go/token"
	"go/types"
	"strings"

	"github.com/goplus/gogen/internal/vp"
)

const verifStringsSrc = `package strings

func Count(s, substr string) int                { return 0 }
func Index(s, substr string) int                { return 0 }
func IndexAny(s, chars string) int              { return 0 }
func IndexByte(s string, c byte) int            { return 0 }
func IndexRune(s string, r rune) int            { return 0 }
func LastIndex(s, substr string) int            { return 0 }
func LastIndexAny(s, chars string) int          { return 0 }
func LastIndexByte(s string, c byte) int        { return 0 }
func Contains(s, substr string) bool            { return false }
func ContainsAny(s, chars string) bool          { return false }
func ContainsRune(s string, r rune) bool        { return false }
func Compare(a, b string) int                   { return 0 }
func EqualFold(s, t string) bool                { return false }
func HasPrefix(s, prefix string) bool           { return false }
func HasSuffix(s, suffix string) bool           { return false }
func ToTitle(s string) string                   { return s }
func ToUpper(s string) string                   { return s }
func ToLower(s string) string                   { return s }
func Fields(s string) []string                  { return nil }
func Repeat(s string, count int) string         { return s }
func Split(s, sep string) []string              { return nil }
func SplitAfter(s, sep string) []string         { return nil }
func SplitN(s, sep string, n int) []string      { return nil }
func SplitAfterN(s, sep string, n int) []string { return nil }
func Replace(s, old, new string, n int) string  { return s }
func ReplaceAll(s, old, new string) string      { return s }
func Trim(s, cutset string) string              { return s }
func TrimSpace(s string) string                 { return s }
func TrimLeft(s, cutset string) string          { return s }
func TrimRight(s, cutset string) string         { return s }
func TrimPrefix(s, prefix string) string        { return s }
func TrimSuffix(s, suffix string) string        { return s }
func Join(elems []string, sep string) string    { return "" }
`

const verifStrconvSrc = `package strconv

func Atoi(s string) (int, error)                                { return 0, nil }
func Itoa(i int) string                                         { return "" }
func ParseInt(s string, base int, bitSize int) (int64, error)   { return 0, nil }
func ParseUint(s string, base int, bitSize int) (uint64, error) { return 0, nil }
func ParseFloat(s string, bitSize int) (float64, error)         { return 0, nil }
func FormatFloat(f float64, fmt byte, prec, bitSize int) string { return "" }
func FormatInt(i int64, base int) string                        { return "" }
func FormatUint(i uint64, base int) string                      { return "" }
func Quote(s string) string                                     { return s }
func Unquote(s string) (string, error)                          { return s, nil }
`

func verifLibPkgs() verifMapImporter {
	m := verifMapImporter{}
	for path, src := range map[string]string{"strings": verifStringsSrc, "strconv": verifStrconvSrc} {
		fset := token.NewFileSet()
		f, err := parser.ParseFile(fset, path+".go", src, 0)
		if err != nil {
			panic(err)
		}
		conf := types.Config{}
		pkg, err := conf.Check(path, fset, []*ast.File{f}, nil)
		if err != nil {
			panic(err)
		}
		m[path] = pkg
	}
	return m
}

// the documented table: receiver class -> method -> callee and extra arguments
type verifBTIMethod struct {
	name   string
	callee string // "pkg.Fn" or "len"/"cap"
	exargs []string
}

var verifBTIString = []verifBTIMethod{
	{"Len", "len", nil}, {"Count", "strings.Count", nil}, {"Int", "strconv.Atoi", nil},
	{"Int64", "strconv.ParseInt", []string{"10", "64"}}, {"Uint64", "strconv.ParseUint", []string{"10", "64"}},
	{"Float", "strconv.ParseFloat", []string{"64"}}, {"Index", "strings.Index", nil}, {"IndexAny", "strings.IndexAny", nil},
	{"IndexByte", "strings.IndexByte", nil}, {"IndexRune", "strings.IndexRune", nil}, {"LastIndex", "strings.LastIndex", nil},
	{"LastIndexAny", "strings.LastIndexAny", nil}, {"LastIndexByte", "strings.LastIndexByte", nil}, {"Contains", "strings.Contains", nil},
	{"ContainsAny", "strings.ContainsAny", nil}, {"ContainsRune", "strings.ContainsRune", nil}, {"Compare", "strings.Compare", nil},
	{"EqualFold", "strings.EqualFold", nil}, {"HasPrefix", "strings.HasPrefix", nil}, {"HasSuffix", "strings.HasSuffix", nil},
	{"Quote", "strconv.Quote", nil}, {"Unquote", "strconv.Unquote", nil}, {"ToTitle", "strings.ToTitle", nil},
	{"ToUpper", "strings.ToUpper", nil}, {"ToLower", "strings.ToLower", nil}, {"Fields", "strings.Fields", nil},
	{"Repeat", "strings.Repeat", nil}, {"Split", "strings.Split", nil}, {"SplitAfter", "strings.SplitAfter", nil},
	{"SplitN", "strings.SplitN", nil}, {"SplitAfterN", "strings.SplitAfterN", nil}, {"Replace", "strings.Replace", nil},
	{"ReplaceAll", "strings.ReplaceAll", nil}, {"Trim", "strings.Trim", nil}, {"TrimSpace", "strings.TrimSpace", nil},
	{"TrimLeft", "strings.TrimLeft", nil}, {"TrimRight", "strings.TrimRight", nil}, {"TrimPrefix", "strings.TrimPrefix", nil},
	{"TrimSuffix", "strings.TrimSuffix", nil},
}

type verifBTIRecv struct {
	expr    string // the receiver as written in the environment
	typ     func(env *types.Package) types.Type
	conv    string // conversion the lowering inserts for named receivers ("" none)
	methods []verifBTIMethod
}

func verifBTIRecvs() []verifBTIRecv {
	v := func(name string) func(*types.Package) types.Type {
		return func(env *types.Package) types.Type { return env.Scope().Lookup(name).Type() }
	}
	sliceM := []verifBTIMethod{{"Len", "len", nil}, {"Cap", "cap", nil}}
	return []verifBTIRecv{
		{"str", v("str"), "", verifBTIString},
		{"nstr", v("nstr"), "string", verifBTIString},
		{"i", v("i"), "", []verifBTIMethod{{"String", "strconv.Itoa", nil}}},
		{"ni", v("ni"), "int", []verifBTIMethod{{"String", "strconv.Itoa", nil}}},
		{"i64", v("i64"), "", []verifBTIMethod{{"String", "strconv.FormatInt", []string{"10"}}}},
		{"u64", v("u64"), "", []verifBTIMethod{{"String", "strconv.FormatUint", []string{"10"}}}},
		{"f64", v("f64"), "", []verifBTIMethod{{"String", "strconv.FormatFloat", []string{"'g'", "-1", "64"}}}},
		{"ss", v("ss"), "", append([]verifBTIMethod{{"Join", "strings.Join", nil}}, sliceM...)},
		{"is", v("is"), "", sliceM},
		{"ch", v("ch"), "", []verifBTIMethod{{"Len", "len", nil}}},
	}
}

const verifBTIEnv = `package p

type NStr string
type NInt int

var (
	str  string
	nstr NStr
	i    int
	ni   NInt
	i64  int64
	u64  uint64
	f64  float64
	ss   []string
	is   []int
	ch   chan int
	s2   string
	n2   int
	b2   byte
	r2   rune
)
`

func VerifH_C11_bti() {
	libs := verifLibPkgs()
	fset := token.NewFileSet()
	envFile, err := parser.ParseFile(fset, "env.go", verifBTIEnv, 0)
	vp.Assume(err == nil)
	tc := types.Config{Importer: libs}
	env, err := tc.Check("example.com/p", fset, []*ast.File{envFile}, nil)
	vp.Assume(err == nil)
	recvs := verifBTIRecvs()
	r := recvs[vp.Choose("recv", len(recvs))]
	mi := vp.Choose("method", len(verifBTIString))
	vp.Assume(mi < len(r.methods))
	m := r.methods[mi]
	// spelling: exact name, lower-case alias (method alias flag), lower-case auto-property
	spelling := vp.Choose("spelling", 3)
	name, flag := m.name, MemberFlagVal
	if spelling >= 1 {
		name = strings.ToLower(m.name[:1]) + m.name[1:]
		flag = MemberFlagMethodAlias
		if spelling == 2 {
			flag = MemberFlagAutoProperty
		}
	}
	// the user's arguments: the library function's parameters after the receiver and before the extras
	var fnSig *types.Signature
	if i := strings.IndexByte(m.callee, '.'); i > 0 {
		fnSig = libs[m.callee[:i]].Scope().Lookup(m.callee[i+1:]).Type().(*types.Signature)
	}
	nuser := 0
	if fnSig != nil {
		nuser = fnSig.Params().Len() - 1 - len(m.exargs)
	}
	vp.Assume(!(spelling == 2 && nuser > 0)) // an auto-property takes no arguments
	nres := 1
	if fnSig != nil {
		nres = fnSig.Results().Len()
	}
	conf := &Config{Types: env, Importer: libs, HandleErr: func(err error) { panic(err) }}
	pkg := NewPackage("", "p", conf)
	argNames := map[string]string{"string": "s2", "int": "n2", "uint8": "b2", "byte": "b2", "int32": "r2", "rune": "r2"}
	var out bytes.Buffer
	var ret *Element
	class, perr := vp.TryVal(func() {
		cb := pkg.NewFunc(nil, "zz_f", nil, nil, false).BodyStart(pkg)
		for i := 0; i < nres; i++ {
			cb.VarRef(nil)
		}
		cb.Val(env.Scope().Lookup(r.expr))
		if _, err := cb.Member(name, 0, flag); err != nil {
			panic(err)
		}
		if spelling != 2 {
			for i := 0; i < nuser; i++ {
				pt := fnSig.Params().At(1 + i).Type()
				cb.Val(env.Scope().Lookup(argNames[types.TypeString(pt, nil)]))
			}
			cb.Call(nuser)
		}
		ret = cb.Get(-1)
		cb.Assign(nres, 1).EndStmt().End()
		if err := WriteTo(&out, pkg); err != nil {
			panic(err)
		}
	})
	vp.Assert("C17.c11.bti.nofault", class != vp.FaultPanic)
	vp.Assert("C11.bti.accepted", class == vp.NoPanic)
	if class != vp.NoPanic {
		vp.Observe("error", verifErrText(perr))
		return
	}
	text := out.String()
	vp.Observe("text", text)
	of, perr2 := parser.ParseFile(token.NewFileSet(), "out.go", text, 0)
	vp.Assert("C11.bti.parses", perr2 == nil)
	if perr2 != nil {
		return
	}
	verifQualify(of)
	fd := verifFindFunc(of, "zz_f")
	var call *ast.CallExpr
	if fd != nil && len(fd.Body.List) == 1 {
		if as, ok := fd.Body.List[0].(*ast.AssignStmt); ok && len(as.Rhs) == 1 {
			call, _ = as.Rhs[0].(*ast.CallExpr)
		}
	}
	vp.Assert("C11.bti.iscall", call != nil)
	if call == nil {
		return
	}
	// callee
	callee := ""
	switch f := call.Fun.(type) {
	case *ast.Ident:
		callee = f.Name
	case *ast.SelectorExpr:
		if x, ok := f.X.(*ast.Ident); ok {
			callee = strings.TrimPrefix(x.Name, "pkg:") + "." + f.Sel.Name
		}
	}
	vp.Assert("C11.bti.callee", callee == m.callee)
	vp.Assert("C11.bti.arity", len(call.Args) == 1+nuser+len(m.exargs))
	if len(call.Args) != 1+nuser+len(m.exargs) {
		return
	}
	// receiver first (converted for named receivers), user arguments next, extras last
	wantRecv := "(id:" + r.expr + ")"
	if r.conv != "" {
		wantRecv = "(call:0(id:" + r.conv + ")(id:" + r.expr + "))"
	}
	vp.Assert("C11.bti.receiver", vp.Canon(call.Args[0]) == wantRecv)
	for i := 0; i < nuser; i++ {
		pt := fnSig.Params().At(1 + i).Type()
		vp.Assert("C11.bti.userarg", vp.Canon(call.Args[1+i]) == "(id:"+argNames[types.TypeString(pt, nil)]+")")
	}
	for i, x := range m.exargs {
		got := verifExprText(&Element{Val: call.Args[1+nuser+i]})
		vp.Assert("C11.bti.exarg", got == x)
	}
	// reported type = the callee's result type(s)
	if fnSig != nil && ret != nil {
		var want types.Type = fnSig.Results()
		if fnSig.Results().Len() == 1 {
			want = fnSig.Results().At(0).Type()
		}
		vp.Assert("C03,C11.bti.type", types.Identical(ret.Type, want))
	}
	// the emitted file type-checks against the library signatures
	i := strings.Index(text, "\n")
	combined := "package p\n" + text[i:] + strings.TrimPrefix(verifBTIEnv, "package p\n")
	fs2 := token.NewFileSet()
	f2, e2 := parser.ParseFile(fs2, "c.go", combined, 0)
	ok := e2 == nil
	if ok {
		bad := false
		tc2 := types.Config{Importer: verifLibPkgs(), Error: func(error) { bad = true }}
		tc2.Check("example.com/p", fs2, []*ast.File{f2}, nil)
		ok = !bad
	}
	vp.Assert("C01,C11.bti.typechecks", ok)
}
