//go:build verif

package cache

// C20: the export-data cache never serves stale data and survives save/load.

import (
	"errors"
	"fmt"
	"io"
	"os"
	"path/filepath"
	"strings"

	"github.com/goplus/gogen/internal/vp"
)

var verifHashes = []string{"h1", "h2", "?", ""}

// verifWorld is the outside world of one scenario: package hashes, which export
// files can be opened, and what the listing command answers.
type verifWorld struct {
	hashP, hashD   string // current fingerprints of package p and of its dependency d
	hashE          string // ... and of a second dependency e
	listFails      bool
	listHasP       bool   // the listing mentions p
	listDepD       bool   // ... with dependency d
	newFile        string // export file named by the listing
	openOld        bool   // the recorded export file can be opened
	openNew        bool   // the newly listed export file can be opened
	dir            string
	opened         []string
	nativeOldPath  string
	nativeNewPath  string
}

func (w *verifWorld) hash(path string, self bool) string {
	switch path {
	case "p":
		return w.hashP
	case "d":
		return w.hashD
	case "e":
		return w.hashE
	}
	return HashSkip
}

// verifSetup installs the world: engine stubs, or (natively) a scripted `go` first on PATH and real files.
func (w *verifWorld) setup(oldFile string) (oldPath, newPath string, cleanup func()) {
	if vp.Symbolic() {
		oldPath, newPath = oldFile, w.newFile
		vp.Stub("github.com/goplus/gogen/packages/cache.golistExport", func(dir string, pkgPath []string, tags string) ([]exportPkg, error) {
			if w.listFails {
				return nil, errors.New("go list failed")
			}
			if !w.listHasP {
				return []exportPkg{}, nil
			}
			e := exportPkg{path: "p", expfile: newPath}
			if w.listDepD {
				e.deps = []string{"d", "e"}
			}
			return []exportPkg{e}, nil
		})
		vp.Stub("os.Open", func(name string) (*os.File, error) {
			w.opened = append(w.opened, name)
			ok := false
			if name == oldPath {
				ok = w.openOld
			}
			if name == newPath {
				ok = w.openNew
			}
			if name == oldPath && name == newPath {
				ok = w.openOld
			}
			if ok {
				return os.Stdin, nil
			}
			return nil, os.ErrNotExist
		})
		return oldPath, newPath, func() {}
	}
	dir, err := os.MkdirTemp("", "verifc20")
	if err != nil {
		panic(err)
	}
	oldPath, newPath = filepath.Join(dir, oldFile), filepath.Join(dir, w.newFile)
	if w.newFile == "" {
		newPath = ""
	}
	if w.openOld {
		os.WriteFile(oldPath, []byte("old"), 0644)
	}
	if newPath != "" && (w.openNew || (oldPath == newPath && w.openOld)) {
		os.WriteFile(newPath, []byte("new"), 0644)
	}
	script := "#!/bin/sh\n"
	switch {
	case w.listFails:
		script += "echo 'go list failed' >&2\nexit 1\n"
	case !w.listHasP:
		script += "exit 0\n"
	default:
		deps := "[]"
		if w.listDepD {
			deps = "[d e]"
		}
		script += fmt.Sprintf("printf 'p\\t%s\\t%s\\n'\n", newPath, deps)
	}
	os.WriteFile(filepath.Join(dir, "go"), []byte(script), 0755)
	oldPATH := os.Getenv("PATH")
	os.Setenv("PATH", dir+string(os.PathListSeparator)+oldPATH)
	return oldPath, newPath, func() { os.Setenv("PATH", oldPATH); os.RemoveAll(dir) }
}

func verifFileName(f io.ReadCloser) string {
	if f == nil {
		return ""
	}
	if vp.Symbolic() {
		return "open"
	}
	if of, ok := f.(*os.File); ok && of != nil {
		return of.Name()
	}
	return ""
}

// One Find from an arbitrary cache state in an arbitrary world.
func VerifH_C20_find() {
	w := &verifWorld{
		hashP: vp.Pick("world.hashP", verifHashes...), hashD: vp.Pick("world.hashD", verifHashes...), hashE: vp.Pick("world.hashE", "h1", "h2", ""),
		listFails: vp.Bool("list.fails"), listHasP: vp.Bool("list.hasP"), listDepD: vp.Bool("list.depD"),
		newFile: vp.Pick("list.file", "p.a", "p2.a", ""), // "": the lister reports the package without an export file
		openOld: vp.Bool("open.old"), openNew: vp.Bool("open.new"),
	}
	// arbitrary pre-state: entry for p present or not, any recorded hash, 0..1 recorded dependency
	hasEntry := vp.Bool("pre.has")
	recHash := vp.Pick("pre.hash", verifHashes...)
	hasDep := vp.Bool("pre.hasDep")
	recDepHash := vp.Pick("pre.depHash", "h1", "h2", "?")
	hasDep2 := vp.Bool("pre.hasDep2")
	recDep2Hash := vp.Pick("pre.dep2Hash", "h1", "h2")
	if w.newFile == "p.a" {
		vp.Assume(w.openNew == w.openOld) // one file: one answer
	}
	if w.newFile == "" {
		vp.Assume(!w.openNew) // no export file: nothing to open
	}
	oldPath, newPath, cleanup := w.setup("p.a")
	defer cleanup()
	c := New(w.hash)
	if hasEntry {
		e := &pkgCache{expfile: oldPath, hash: recHash}
		if hasDep {
			e.deps = append(e.deps, depPkg{"d", recDepHash})
		}
		if hasDep2 {
			e.deps = append(e.deps, depPkg{"e", recDep2Hash})
		}
		c.cache.Store("p", e)
	}
	fresh := hasEntry && recHash != HashInvalid && w.hashP == recHash && (!hasDep || w.hashD == recDepHash) && (!hasDep2 || w.hashE == recDep2Hash)
	f, err := c.Find(".", "p")
	served := f != nil && err == nil
	if f != nil && !vp.Symbolic() {
		defer f.Close()
	}
	nlist := c.ListTimes()
	if fresh && w.openOld {
		// an unchanged entry is served without re-listing
		vp.Assert("C20.find.fresh.nolist", nlist == 0)
		vp.Assert("C20.find.fresh.served", served)
	} else {
		// anything else re-lists first
		vp.Assert("C20.find.stale.relist", nlist == 1)
		if w.listFails {
			// a failing lister is surfaced as an error, old data is never served
			vp.Assert("C20.find.listfail.error", err != nil)
			vp.Assert("C20.find.listfail.nodata", !served)
		} else if w.listHasP {
			if w.openNew || (newPath == oldPath && w.openOld) {
				vp.Assert("C20.find.relisted.served", served)
			} else {
				vp.Assert("C20.find.relisted.unopenable", !served && err != nil)
			}
			// what is recorded now is what the world says now
			val, ok := c.cache.Load("p")
			vp.Assert("C20.find.relisted.recorded", ok && val.(*pkgCache).expfile == newPath && val.(*pkgCache).hash == w.hashP)
			if ok {
				// recorded dependencies: exactly the listed ones whose fingerprint is not HashSkip, with the current fingerprints
				var want []depPkg
				if w.listDepD {
					if w.hashD != HashSkip {
						want = append(want, depPkg{"d", w.hashD})
					}
					if w.hashE != HashSkip {
						want = append(want, depPkg{"e", w.hashE})
					}
				}
				got := val.(*pkgCache).deps
				same := len(got) == len(want)
				for i := 0; same && i < len(want); i++ {
					same = got[i] == want[i]
				}
				vp.Assert("C20.find.relisted.deps", same)
			}
		} else if !hasEntry {
			vp.Assert("C20.find.unknown.error", !served && err != nil)
		}
	}
	if served && !vp.Symbolic() {
		name := verifFileName(f)
		vp.Oracle("c20.served.file", name == oldPath || name == newPath, name)
	}
	vp.Cover("ALL.c20.served", served)
	vp.Cover("ALL.c20.error", err != nil)
}

// Malformed or arbitrary cache files: an error or exactly the described entries, never a fault.
func VerifH_C20_load() {
	pick := func(n string) string {
		return vp.Pick(n, "p\tp.a\th1\t0", "p\tp.a\th1\t1", "\td\th2", "p\tp.a\th1\t-1", "p\tp.a\th1\t2", "\tp.a\th1\t0", "p\tp.a\th1", "\td", "q\tq.a\t?\t0", "", "p\tp.a\th1\tx", "\t\th2")
	}
	n := vp.Choose("nlines", 4)
	var lines []string
	for i := 0; i < n; i++ {
		lines = append(lines, pick("line"+string(rune('0'+i))))
	}
	c := New(func(string, bool) string { return "" })
	var err error
	class := vp.Try(func() { err = c.loadCachePkgs(lines) })
	vp.Assert("C17.c20.load.nofault", class != vp.FaultPanic)
	vp.Assert("C20.load.nopanic", class == vp.NoPanic)
	if class != vp.NoPanic {
		return
	}
	if err != nil {
		vp.Assert("C20.load.errkind", err == errInvalidFormat)
		return
	}
	// accepted: every stored entry is described by a well-formed header line with the right dependency lines
	ok := true
	c.cache.Range(func(key, val any) bool {
		p := val.(*pkgCache)
		found := false
		for i, l := range lines {
			parts := strings.Split(l, "\t")
			if len(parts) == 4 && parts[0] == key.(string) && parts[0] != "" && parts[1] == p.expfile && parts[2] == p.hash {
				if fmt.Sprint(len(p.deps)) == parts[3] && i+len(p.deps) < len(lines) {
					match := true
					for j, d := range p.deps {
						if lines[i+1+j] != "\t"+d.path+"\t"+d.hash || d.path == "" {
							match = false
						}
					}
					if match {
						found = true
					}
				}
			}
		}
		if !found {
			ok = false
		}
		return true
	})
	vp.Assert("C20.load.faithful", ok)
}

// Save then Load reproduces the cache exactly.
func VerifH_C20_roundtrip() {
	var saved []byte
	oldW, oldR := writeFile, readFile
	writeFile = func(name string, data []byte, perm os.FileMode) error { saved = append([]byte(nil), data...); return nil }
	readFile = func(name string) ([]byte, error) { return saved, nil }
	defer func() { writeFile, readFile = oldW, oldR }()
	c := New(func(string, bool) string { return "" })
	c.nlist = 1
	type ent struct {
		path, file, hash string
		deps             []depPkg
	}
	var ents []ent
	n := vp.Choose("nent", 3)
	if !vp.Thorough() && n == 2 {
		vp.MapOrder(false)
	}
	paths := []string{"p", "q/r"}
	for i := 0; i < n; i++ {
		s := string(rune('0' + i))
		e := ent{path: paths[i], file: vp.Pick("file"+s, "", "/x y/p.a"), hash: vp.Pick("hash"+s, "?", "")}
		nd := vp.Choose("ndep"+s, 2+i)
		if !vp.Thorough() && nd == 2 {
			nd = 1
		}
		for j := 0; j < nd; j++ {
			e.deps = append(e.deps, depPkg{[]string{"d", "e/f"}[j], vp.Pick("dh"+s+string(rune('0'+j)), "h1", "")})
		}
		ents = append(ents, e)
		c.cache.Store(e.path, &pkgCache{expfile: e.file, hash: e.hash, deps: e.deps})
	}
	vp.MapOrder(true)
	err := c.Save("cache.txt")
	vp.MapOrder(false)
	vp.Assert("C20.roundtrip.save", err == nil)
	c2 := New(func(string, bool) string { return "" })
	err = c2.Load("cache.txt")
	vp.Assert("C20.roundtrip.load", err == nil)
	if err != nil {
		return
	}
	cnt := 0
	c2.cache.Range(func(key, val any) bool { cnt++; return true })
	vp.Assert("C20.roundtrip.count", cnt == len(ents))
	for _, e := range ents {
		val, ok := c2.cache.Load(e.path)
		vp.Assert("C20.roundtrip.present", ok)
		if !ok {
			continue
		}
		p := val.(*pkgCache)
		same := p.expfile == e.file && p.hash == e.hash && len(p.deps) == len(e.deps)
		if same {
			for j := range e.deps {
				if p.deps[j] != e.deps[j] {
					same = false
				}
			}
		}
		vp.Assert("C20.roundtrip.equal", same)
	}
}
