//go:build verif

package gogen

// C02 (and C01, C17): program round trip. A valid Go function body, generated from a grammar of
// statement and expression templates over a fixed environment, is compiled into builder
// operations by a small syntax-directed front end (the "canonical operation sequence a compiler
// front end would use"), written out, parsed back, and compared with the original syntax tree up
// to parentheses and positions. go/types validates the original and re-checks the emitted code.
//
// The programs are concrete per path (the engine forks over the grammar's choices); nothing of
// the property's domain is a solver variable here.

import (
	"bytes"
	"go/ast"
	"go/importer"
	"go/parser"
	"go/token"
	"go/types"
	"strconv"
	"strings"

	"github.com/goplus/gogen/internal/vp"
)

const verifRTHeader = `package p

type T struct {
	X int
	Y []int
}

func (t *T) M(a int) int { return a }

var (
	a, b int
	s    []int
	m    map[string]int
	p    *T
	t    T
	f    func(int, int) int
	ch   chan int
	e    any
	str  string
	fl   float64
	arr  [4]int
	pa   *[4]int
	ok   bool
)

func g(xs ...int) (int, error) { return 0, nil }
func h(x int, y string)        {}
`

// ---------------------------------------------------------------------------
// program grammar

type verifGen struct {
	n      int // holes generated so far
	focus  int // the hole that ranges over its whole pool
	focus2 int // thorough tier: a second such hole (0: none)
}

func (g *verifGen) pick(k int) int {
	g.n++
	if g.n == g.focus {
		c := vp.Choose("hole", k)
		vp.Assume(c < k)
		return c
	}
	if g.n == g.focus2 {
		c := vp.Choose("hole2", k)
		vp.Assume(c < k)
		return c
	}
	return (g.n * 7) % k // fixed, but different per position
}

var verifIntLeaves = []string{"a", "b", "1", "s[a]", "t.X", "len(s)", "arr[2]", "p.X", `m["k"]`, "pa[1]", "cap(t.Y)", "0x10", "'c'"}

func (g *verifGen) intExpr(depth int) string {
	if depth == 0 {
		return verifIntLeaves[g.pick(len(verifIntLeaves))]
	}
	I := func() string { return g.intExpr(depth - 1) }
	switch g.pick(40) {
	case 0:
		return I() + " + " + I()
	case 1:
		return I() + " - (" + I() + " - b)"
	case 2:
		return "(" + I() + " + a) * " + I()
	case 3:
		return I() + " / " + I()
	case 4:
		return I() + " % (" + I() + " | 1)"
	case 5:
		return I() + " << 2"
	case 6:
		return I() + " &^ " + I()
	case 7:
		return "-" + I()
	case 8:
		return "^" + I()
	case 9:
		return "f(" + I() + ", " + I() + ")"
	case 10:
		return "p.M(" + I() + ")"
	case 11:
		return "int(fl) + " + I()
	case 12:
		return "<-ch"
	case 13:
		return "e.(int)"
	case 14:
		return "func(x int) int { return x + " + I() + " }(" + I() + ")"
	case 15:
		return "[]int{" + I() + ", " + I() + "}[0]"
	case 16:
		return "(T{X: " + I() + "}).X"
	case 17:
		return "(&T{" + I() + ", nil}).X"
	case 18:
		return "s[b+" + I() + ":][0]"
	case 19:
		return "s[1:a+" + I() + ":4][0]"
	case 20:
		return `map[string]int{"k": ` + I() + `}["k"]`
	case 21:
		return "[3]int{2: " + I() + "}[2]"
	case 22:
		return "*&a"
	case 23:
		return "(*pa)[a+" + I() + "]"
	case 24:
		return "len(str[:b+" + I() + "])"
	case 25:
		return "int(str[a+" + I() + "])"
	case 26:
		return "t.Y[a+" + I() + "]"
	case 27:
		return "a - -" + I()
	case 28:
		return I() + " >> uint(a+" + I() + ")"
	case 29:
		return "copy(s, t.Y[b+" + I() + ":])"
	case 30:
		return "min(" + I() + ", " + I() + ", 3)"
	case 31:
		return "append(s, " + I() + ")[0]"
	case 32:
		return "append(s, t.Y...)[a+" + I() + "]"
	case 33:
		return "(*T).M(p, " + I() + ")"
	case 34:
		return "<-(<-chan int)(ch)"
	case 35:
		return "*(*int)(&a) + " + I()
	case 36:
		return "(func(int, int) int)(f)(" + I() + ", 2)"
	case 37:
		return "cap((chan<- int)(ch))"
	case 38:
		return "len([]int(s)) + len(map[string]int(m))"
	case 39:
		return "len(*(*[4]int)(pa))"
	}
	return "a"
}

func (g *verifGen) boolExpr(depth int) string {
	if depth == 0 {
		return []string{"ok", "a < b", "e != nil", `str == "x"`, "p == nil"}[g.pick(5)]
	}
	I := func() string { return g.intExpr(depth - 1) }
	B := func() string { return g.boolExpr(depth - 1) }
	switch g.pick(8) {
	case 0:
		return I() + " < " + I()
	case 1:
		return I() + " == " + I()
	case 2:
		return "!(" + B() + ")"
	case 3:
		return B() + " && " + B()
	case 4:
		return B() + " || " + B() + " && ok"
	case 5:
		return "(" + B() + " || ok) && " + B()
	case 6:
		return I() + " >= " + I()
	case 7:
		return "fl != float64(" + I() + ")"
	}
	return "ok"
}

func (g *verifGen) simpleStmt() string {
	switch g.pick(5) {
	case 0:
		return "a = " + g.intExpr(0)
	case 1:
		return "a++"
	case 2:
		return "h(a, str)"
	case 3:
		return "if ok {\n b--\n }"
	}
	return "b -= 2"
}

const verifNStmt = 58

func (g *verifGen) stmt(depth int) string {
	if depth == 0 {
		return g.simpleStmt()
	}
	return g.stmtWith(g.pick(verifNStmt), depth)
}

func (g *verifGen) stmtWith(tmpl, depth int) string {
	L := "L" + strconv.Itoa(g.n)
	I := func() string { return g.intExpr(1) }
	B := func() string { return g.boolExpr(1) }
	S := func() string { return g.stmt(depth - 1) }
	switch tmpl {
	case 0:
		return "a = " + I()
	case 1:
		return "a, b = " + I() + ", " + I()
	case 2:
		return "a " + []string{"+=", "-=", "*=", "<<=", "&^=", "%=", "|="}[g.pick(7)] + " " + I()
	case 3:
		return "a++\nb--"
	case 4:
		return "x := " + I() + "\n_ = x"
	case 5:
		return "s[a+" + I() + "] = " + I()
	case 6:
		return "t.X = " + I() + "\np.X = " + I()
	case 7:
		return "*pa = arr\n*p = t"
	case 8:
		return `m["k"] = ` + I() + "\n" + `m["k"]++`
	case 9:
		return "h(" + I() + ", str)"
	case 10:
		return "ch <- " + I()
	case 11:
		return "go h(" + I() + `, "x")` + "\ndefer h(" + I() + `, "y")`
	case 12:
		return `v, ok2 := m["k"]` + "\n_, _ = v, ok2"
	case 13:
		return "v, err := g(" + I() + ")\n_, _ = v, err"
	case 14:
		return "_, ok = e.(int)"
	case 15:
		return "v, more := <-ch\n_, _ = v, more"
	case 16:
		return "var x int = " + I() + "\n_ = x"
	case 17:
		return "var x, y = " + I() + `, "s"` + "\n_, _ = x, y"
	case 18:
		return "var z []int\n_ = z"
	case 19:
		return "if " + B() + " {\n" + S() + "\n}"
	case 20:
		return "if " + B() + " {\n" + S() + "\n} else {\n" + S() + "\n}"
	case 21:
		return "if " + B() + " {\n" + S() + "\n} else if " + B() + " {\n" + S() + "\n} else {\n" + S() + "\n}"
	case 22:
		return "if x := " + I() + "; x > 0 {\n" + S() + "\n}"
	case 23:
		return "for i := 0; i < " + I() + "; i++ {\n" + S() + "\n}"
	case 24:
		return "for " + B() + " {\n" + S() + "\n}"
	case 25:
		return "for {\n" + S() + "\nbreak\n}"
	case 26:
		return "for i, v := range s {\n_ = i\n_ = v\n" + S() + "\n}"
	case 27:
		return "for k := range m {\n_ = k\n}"
	case 28:
		return "for range s {\n" + S() + "\n}"
	case 29:
		return "for a = range s {\n}"
	case 30:
		return "for i := range 10 {\n_ = i\n}"
	case 31:
		return "switch b + " + I() + " {\ncase 1, 2:\n" + S() + "\nfallthrough\ncase " + I() + ":\n" + S() + "\ndefault:\n" + S() + "\n}"
	case 32:
		return "switch {\ncase " + B() + ":\n" + S() + "\ncase " + B() + ", ok:\n}"
	case 33:
		return "switch x := " + I() + "; x {\ncase 1:\n" + S() + "\n}"
	case 34:
		return "switch v := e.(type) {\ncase int:\n_ = v\n" + S() + "\ncase string, bool:\n_ = v\ndefault:\n" + S() + "\n}"
	case 35:
		return "switch e.(type) {\ncase nil:\n" + S() + "\n}"
	case 36:
		return "select {\ncase v := <-ch:\n_ = v\n" + S() + "\ncase ch <- " + I() + ":\n" + S() + "\ndefault:\n" + S() + "\n}"
	case 37:
		return L + ":\nfor {\n" + S() + "\nbreak " + L + "\n}"
	case 38:
		return L + ":\nfor i := 0; i < 2; i++ {\ncontinue " + L + "\n}"
	case 39:
		return L + ":\na++\nif " + B() + " {\ngoto " + L + "\n}"
	case 40:
		return "{\n" + S() + "\n{\n" + S() + "\n}\n}"
	case 41:
		return "if " + B() + " {\nreturn\n}"
	case 42:
		return "func() {\n" + S() + "\n}()"
	case 43:
		return "defer func() {\n" + S() + "\n}()"
	case 44:
		return "for i, j := 0, a+" + I() + "; i < j; i, j = i+1, j-1 {\n}"
	case 45:
		return "select {\ncase v, more := <-ch:\n_, _ = v, more\ncase a = <-ch:\n}"
	case 46:
		return "s = append(s, " + I() + ", " + I() + ")\ndelete(m, str)"
	case 47:
		return "pt := &T{X: " + I() + ", Y: []int{" + I() + "}}\n_ = pt"
	case 48:
		return "fn := func(x int, ys ...int) (r int) {\nr = x + len(ys)\nreturn\n}\n_ = fn(" + I() + ", 1, 2)"
	case 49:
		return "switch {\ndefault:\n" + S() + "\ncase " + B() + ":\n" + S() + "\n}"
	case 50:
		return "for _, v := range " + `"abc"` + " {\n_ = v\n}"
	case 51:
		return "var q *T = p\nq.Y = append(q.Y, " + I() + ")"
	case 52: // switch with an init statement and no tag
		return "switch x := " + I() + "; {\ncase x > 0:\n" + S() + "\n}"
	case 53: // expression statement as switch init, no tag
		return "switch h(" + I() + ", str); {\ncase ok:\n" + S() + "\n}"
	case 54: // for with init and post but no condition
		return "for i := 0; ; i++ {\nif i > " + I() + " {\nbreak\n}\n}"
	case 55: // for with only a post statement
		return "for ; ; a++ {\nif " + B() + " {\nbreak\n}\n}"
	case 56: // type switch with an init statement
		return "switch x := " + I() + "; v := e.(type) {\ncase int:\n_, _ = v, x\ndefault:\n" + S() + "\n}"
	case 57: // if with an expression-statement init
		return "if h(" + I() + ", str); " + B() + " {\n" + S() + "\n}"
	}
	return "a = 0"
}

// ---------------------------------------------------------------------------
// the front end: syntax tree -> builder operations

type verifFE struct {
	pkg        *Package
	cb         *CodeBuilder
	labels     map[string]*Label
	imports    map[string]string // source alias -> import path (nil: no imports)
	importRefs map[string]PkgRef
	onExpr     func(e ast.Expr, el *Element) // called with every value expression built (C03)
	unbalanced int                           // statements after which the operand stack length differed (C16)
	lazyLabels bool                          // labels are created at their first mention instead of up front per body
}

func (fe *verifFE) lookup(name string) types.Object {
	_, o := fe.cb.Scope().LookupParent(name, token.NoPos)
	if o == nil {
		panic(verifErr("front end: undefined " + name))
	}
	return o
}

// resolve a type expression (composite forms: typX in zz_verif_c02decl.go)
func (fe *verifFE) typ(e ast.Expr) types.Type {
	if id, ok := e.(*ast.Ident); ok {
		if tn, ok := fe.lookup(id.Name).(*types.TypeName); ok {
			return tn.Type()
		}
		panic(verifErr("front end: " + id.Name + " is not a type"))
	}
	return fe.typX(e)
}

func (fe *verifFE) isType(e ast.Expr) bool {
	switch v := e.(type) {
	case *ast.Ident:
		_, o := fe.cb.Scope().LookupParent(v.Name, token.NoPos)
		_, ok := o.(*types.TypeName)
		return ok
	case *ast.ParenExpr:
		return fe.isType(v.X)
	case *ast.StarExpr:
		return fe.isType(v.X)
	case *ast.IndexExpr: // instantiated generic type
		return fe.isType(v.X)
	case *ast.IndexListExpr:
		return fe.isType(v.X)
	case *ast.SelectorExpr:
		if id, ok := v.X.(*ast.Ident); ok {
			if ref, isPkg := fe.importRef(id.Name); isPkg {
				_, isT := ref.Ref(v.Sel.Name).(*types.TypeName)
				return isT
			}
		}
		return false
	case *ast.ArrayType, *ast.MapType, *ast.ChanType, *ast.FuncType, *ast.StructType, *ast.InterfaceType:
		return true
	}
	return false
}

func (fe *verifFE) sig(ft *ast.FuncType) *types.Signature { return fe.sigX(ft) }

func verifTwoValued(e ast.Expr) bool {
	switch v := e.(type) {
	case *ast.ParenExpr:
		return verifTwoValued(v.X)
	case *ast.IndexExpr, *ast.TypeAssertExpr:
		return true
	case *ast.UnaryExpr:
		return v.Op == token.ARROW
	}
	return false
}

func (fe *verifFE) expr(e ast.Expr, two bool) {
	fe.expr1(e, two)
	if fe.onExpr != nil && !two {
		if _, isParen := e.(*ast.ParenExpr); !isParen && fe.cb.InternalStack().Len() > 0 {
			fe.onExpr(e, fe.cb.Get(-1))
		}
	}
}

func (fe *verifFE) expr1(e ast.Expr, two bool) {
	cb := fe.cb
	lhs := 0
	if two {
		lhs = 2
	}
	switch v := e.(type) {
	case *ast.ParenExpr:
		fe.expr(v.X, two)
	case *ast.BasicLit:
		cb.Val(v)
	case *ast.Ident:
		switch v.Name {
		case "nil":
			cb.Val(nil)
		case "true":
			cb.Val(true)
		case "false":
			cb.Val(false)
		default:
			o := fe.lookup(v.Name)
			if _, isB := o.(*types.Builtin); isB {
				cb.Val(fe.pkg.Builtin().Ref(v.Name))
			} else {
				cb.Val(o)
			}
		}
	case *ast.BinaryExpr:
		fe.expr(v.X, false)
		fe.expr(v.Y, false)
		cb.BinaryOp(v.Op)
	case *ast.UnaryExpr:
		fe.expr(v.X, false)
		if two {
			cb.UnaryOpEx(v.Op, 2)
		} else {
			cb.UnaryOp(v.Op)
		}
	case *ast.StarExpr:
		fe.expr(v.X, false)
		cb.Elem()
	case *ast.IndexExpr:
		if fe.isType(v.Index) { // f[T]: explicit (possibly partial) instantiation of a generic function
			fe.expr(v.X, false)
			cb.Typ(fe.typ(v.Index))
			cb.Index(1, 0)
			break
		}
		fe.expr(v.X, false)
		fe.expr(v.Index, false)
		cb.Index(1, lhs)
	case *ast.IndexListExpr: // f[T1, T2]
		fe.expr(v.X, false)
		for _, x := range v.Indices {
			cb.Typ(fe.typ(x))
		}
		cb.Index(len(v.Indices), 0)
	case *ast.SliceExpr:
		fe.expr(v.X, false)
		for i, x := range []ast.Expr{v.Low, v.High, v.Max} {
			if i == 2 && !v.Slice3 {
				break
			}
			if x == nil {
				cb.None()
			} else {
				fe.expr(x, false)
			}
		}
		cb.Slice(v.Slice3)
	case *ast.SelectorExpr:
		if id, ok := v.X.(*ast.Ident); ok {
			if ref, isPkg := fe.importRef(id.Name); isPkg {
				cb.Val(ref.Ref(v.Sel.Name))
				return
			}
		}
		if fe.isType(v.X) { // method expression
			cb.Typ(fe.typ(v.X))
		} else {
			fe.expr(v.X, false)
		}
		cb.MemberVal(v.Sel.Name, 0)
	case *ast.CallExpr:
		if fe.isType(v.Fun) {
			cb.Typ(fe.typ(v.Fun))
			fe.expr(v.Args[0], false)
			cb.Call(1)
			return
		}
		fe.expr(v.Fun, false)
		for _, a := range v.Args {
			if fe.isType(a) {
				cb.Typ(fe.typ(a))
			} else {
				fe.expr(a, false)
			}
		}
		cb.Call(len(v.Args), v.Ellipsis.IsValid())
	case *ast.TypeAssertExpr:
		fe.expr(v.X, false)
		cb.TypeAssert(fe.typ(v.Type), lhs)
	case *ast.FuncLit:
		sig := fe.sig(v.Type)
		cb.NewClosure(sig.Params(), sig.Results(), sig.Variadic()).BodyStart(fe.pkg)
		outer := fe.labels // a function literal has its own label namespace
		fe.labels = map[string]*Label{}
		fe.declareLabels(v.Body.List)
		fe.stmts(v.Body.List)
		fe.labels = outer
		cb.End()
	case *ast.CompositeLit:
		fe.compositeLit(v)
	default:
		panic(verifErr("front end: unsupported expression"))
	}
}

func (fe *verifFE) compositeLit(v *ast.CompositeLit) {
	cb := fe.cb
	var typ types.Type
	if at, ok := v.Type.(*ast.ArrayType); ok && at.Len != nil {
		if _, isEll := at.Len.(*ast.Ellipsis); isEll {
			panic(verifErr("front end: [...]T literals unsupported"))
		}
	}
	typ = fe.typ(v.Type)
	keyed := len(v.Elts) > 0
	for _, el := range v.Elts {
		if _, ok := el.(*ast.KeyValueExpr); !ok {
			keyed = false
		}
	}
	switch u := typ.Underlying().(type) {
	case *types.Struct:
		for _, el := range v.Elts {
			if keyed {
				kv := el.(*ast.KeyValueExpr)
				name := kv.Key.(*ast.Ident).Name
				idx := -1
				for i := 0; i < u.NumFields(); i++ {
					if u.Field(i).Name() == name {
						idx = i
					}
				}
				cb.Val(idx)
				fe.expr(kv.Value, false)
			} else {
				fe.expr(el, false)
			}
		}
		if keyed {
			cb.StructLit(typ, 2*len(v.Elts), true)
		} else {
			cb.StructLit(typ, len(v.Elts), false)
		}
	case *types.Map:
		for _, el := range v.Elts {
			kv := el.(*ast.KeyValueExpr)
			fe.expr(kv.Key, false)
			fe.expr(kv.Value, false)
		}
		cb.MapLit(typ, 2*len(v.Elts))
	case *types.Slice, *types.Array:
		for _, el := range v.Elts {
			if keyed {
				kv := el.(*ast.KeyValueExpr)
				fe.expr(kv.Key, false)
				fe.expr(kv.Value, false)
			} else {
				fe.expr(el, false)
			}
		}
		n := len(v.Elts)
		if keyed {
			n *= 2
		}
		if _, isSlice := u.(*types.Slice); isSlice {
			cb.SliceLit(typ, n, keyed)
		} else {
			cb.ArrayLit(typ, n, keyed)
		}
	default:
		panic(verifErr("front end: unsupported composite literal"))
	}
}

// assignment target
func (fe *verifFE) lhs(e ast.Expr) {
	cb := fe.cb
	switch v := e.(type) {
	case *ast.ParenExpr:
		fe.lhs(v.X)
	case *ast.Ident:
		if v.Name == "_" {
			cb.VarRef(nil)
		} else {
			cb.VarRef(fe.lookup(v.Name))
		}
	case *ast.IndexExpr:
		fe.expr(v.X, false)
		fe.expr(v.Index, false)
		cb.IndexRef(1)
	case *ast.SelectorExpr:
		if id, ok := v.X.(*ast.Ident); ok {
			if ref, isPkg := fe.importRef(id.Name); isPkg {
				cb.VarRef(ref.Ref(v.Sel.Name))
				return
			}
		}
		fe.expr(v.X, false)
		cb.MemberRef(v.Sel.Name)
	case *ast.StarExpr:
		fe.expr(v.X, false)
		cb.ElemRef()
	default:
		panic(verifErr("front end: unsupported assignment target"))
	}
}

func (fe *verifFE) stmts(list []ast.Stmt) {
	for _, s := range list {
		fe.stmt(s)
	}
}

func verifNames(es []ast.Expr) []string {
	var names []string
	for _, e := range es {
		names = append(names, e.(*ast.Ident).Name)
	}
	return names
}

func (fe *verifFE) label(name string) *Label {
	if l, ok := fe.labels[name]; ok {
		return l
	}
	l := fe.cb.NewLabel(token.NoPos, token.NoPos, name)
	fe.labels[name] = l
	return l
}

// declare the labels of a function body up front (goto may precede the label)
func (fe *verifFE) declareLabels(list []ast.Stmt) {
	if fe.lazyLabels {
		return
	}
	for _, s := range list {
		ast.Inspect(s, func(n ast.Node) bool {
			switch v := n.(type) {
			case *ast.FuncLit:
				return false
			case *ast.LabeledStmt:
				fe.label(v.Label.Name)
			}
			return true
		})
	}
}

func (fe *verifFE) assign(v *ast.AssignStmt) {
	cb := fe.cb
	two := len(v.Lhs) == 2 && len(v.Rhs) == 1 && verifTwoValued(v.Rhs[0])
	switch v.Tok {
	case token.DEFINE:
		cb.DefineVarStart(token.NoPos, verifNames(v.Lhs)...)
		for _, r := range v.Rhs {
			fe.expr(r, two)
		}
		cb.EndInit(len(v.Rhs))
	case token.ASSIGN:
		for _, l := range v.Lhs {
			fe.lhs(l)
		}
		for _, r := range v.Rhs {
			fe.expr(r, two)
		}
		cb.Assign(len(v.Lhs), len(v.Rhs))
		cb.EndStmt()
	default:
		fe.lhs(v.Lhs[0])
		fe.expr(v.Rhs[0], false)
		cb.AssignOp(v.Tok)
		cb.EndStmt()
	}
}

func (fe *verifFE) stmt(s ast.Stmt) {
	n0 := fe.cb.InternalStack().Len()
	fe.stmt1(s)
	if fe.cb.InternalStack().Len() != n0 {
		fe.unbalanced++
	}
}

func (fe *verifFE) stmt1(s ast.Stmt) {
	cb := fe.cb
	switch v := s.(type) {
	case *ast.ExprStmt:
		fe.expr(v.X, false)
		cb.EndStmt()
	case *ast.AssignStmt:
		fe.assign(v)
	case *ast.IncDecStmt:
		fe.lhs(v.X)
		cb.IncDec(v.Tok)
		cb.EndStmt()
	case *ast.DeclStmt:
		gd := v.Decl.(*ast.GenDecl)
		for _, sp := range gd.Specs {
			vs := sp.(*ast.ValueSpec)
			var typ types.Type
			if vs.Type != nil {
				typ = fe.typ(vs.Type)
			}
			var names []string
			for _, n := range vs.Names {
				names = append(names, n.Name)
			}
			if len(vs.Values) == 0 {
				cb.NewVar(typ, names...)
			} else {
				cb.NewVarStart(typ, names...)
				for _, x := range vs.Values {
					fe.expr(x, false)
				}
				cb.EndInit(len(vs.Values))
			}
		}
	case *ast.SendStmt:
		fe.expr(v.Chan, false)
		fe.expr(v.Value, false)
		cb.Send()
		cb.EndStmt()
	case *ast.GoStmt:
		fe.expr(v.Call, false)
		cb.Go()
	case *ast.DeferStmt:
		fe.expr(v.Call, false)
		cb.Defer()
	case *ast.ReturnStmt:
		for _, r := range v.Results {
			fe.expr(r, false)
		}
		cb.Return(len(v.Results))
	case *ast.BlockStmt:
		cb.Block()
		fe.stmts(v.List)
		cb.End()
	case *ast.IfStmt:
		cb.If()
		if v.Init != nil {
			fe.stmt(v.Init)
		}
		fe.expr(v.Cond, false)
		cb.Then()
		fe.stmts(v.Body.List)
		if v.Else != nil {
			cb.Else()
			if blk, ok := v.Else.(*ast.BlockStmt); ok {
				fe.stmts(blk.List)
			} else {
				fe.stmt(v.Else)
			}
		}
		cb.End()
	case *ast.ForStmt:
		cb.For()
		if v.Init != nil {
			fe.stmt(v.Init)
		}
		if v.Cond != nil {
			fe.expr(v.Cond, false)
		} else {
			cb.None()
		}
		cb.Then()
		fe.stmts(v.Body.List)
		if v.Post != nil {
			cb.Post()
			fe.stmt(v.Post)
		}
		cb.End()
	case *ast.RangeStmt:
		if v.Tok == token.DEFINE {
			var names []string
			if v.Key != nil {
				names = append(names, v.Key.(*ast.Ident).Name)
			}
			if v.Value != nil {
				names = append(names, v.Value.(*ast.Ident).Name)
			}
			cb.ForRange(names...)
		} else {
			cb.ForRange()
			if v.Key != nil {
				fe.lhs(v.Key)
			}
			if v.Value != nil {
				fe.lhs(v.Value)
			}
		}
		fe.expr(v.X, false)
		cb.RangeAssignThen(token.NoPos)
		fe.stmts(v.Body.List)
		cb.End()
	case *ast.SwitchStmt:
		cb.Switch()
		if v.Init != nil {
			fe.stmt(v.Init)
		}
		if v.Tag != nil {
			fe.expr(v.Tag, false)
		} else {
			cb.None()
		}
		cb.Then()
		for _, c := range v.Body.List {
			cc := c.(*ast.CaseClause)
			if cc.List == nil {
				cb.DefaultThen()
			} else {
				cb.Case()
				for _, x := range cc.List {
					fe.expr(x, false)
				}
				cb.Then()
			}
			fe.stmts(cc.Body)
			cb.End()
		}
		cb.End()
	case *ast.TypeSwitchStmt:
		name := ""
		var x ast.Expr
		switch a := v.Assign.(type) {
		case *ast.AssignStmt:
			name = a.Lhs[0].(*ast.Ident).Name
			x = a.Rhs[0].(*ast.TypeAssertExpr).X
		case *ast.ExprStmt:
			x = a.X.(*ast.TypeAssertExpr).X
		}
		cb.TypeSwitch(name)
		if v.Init != nil {
			fe.stmt(v.Init)
		}
		fe.expr(x, false)
		cb.TypeAssertThen()
		for _, c := range v.Body.List {
			cc := c.(*ast.CaseClause)
			if cc.List == nil {
				cb.TypeDefaultThen()
			} else {
				cb.TypeCase()
				for _, tx := range cc.List {
					if id, ok := tx.(*ast.Ident); ok && id.Name == "nil" {
						cb.Val(nil)
					} else {
						cb.Typ(fe.typ(tx))
					}
				}
				cb.Then()
			}
			fe.stmts(cc.Body)
			cb.End()
		}
		cb.End()
	case *ast.SelectStmt:
		cb.Select()
		for _, c := range v.Body.List {
			cc := c.(*ast.CommClause)
			if cc.Comm == nil {
				cb.CommDefaultThen()
			} else {
				cb.CommCase()
				fe.stmt(cc.Comm)
				cb.Then()
			}
			fe.stmts(cc.Body)
			cb.End()
		}
		cb.End()
	case *ast.LabeledStmt:
		cb.Label(fe.label(v.Label.Name))
		fe.stmt(v.Stmt)
	case *ast.BranchStmt:
		var l *Label
		if v.Label != nil {
			l = fe.label(v.Label.Name)
		}
		switch v.Tok {
		case token.BREAK:
			cb.Break(l)
		case token.CONTINUE:
			cb.Continue(l)
		case token.GOTO:
			cb.Goto(l)
		case token.FALLTHROUGH:
			cb.Fallthrough()
		}
	case *ast.EmptyStmt:
	default:
		panic(verifErr("front end: unsupported statement"))
	}
}

func verifErrText(v interface{}) string {
	if e, ok := v.(error); ok {
		return e.Error()
	}
	if s, ok := v.(string); ok {
		return s
	}
	return "?"
}

func verifFindFunc(f *ast.File, name string) *ast.FuncDecl {
	for _, d := range f.Decls {
		if fd, ok := d.(*ast.FuncDecl); ok && fd.Name.Name == name {
			return fd
		}
	}
	return nil
}

// ---------------------------------------------------------------------------

func verifTypeCheck(src string) (*types.Package, *ast.File, bool) {
	pkg, f, _, ok := verifTypeCheckInfo(src, false)
	return pkg, f, ok
}

// verifTypeCheckInfo also reports whether some boolean-valued binary expression is constant.
func verifTypeCheckInfo(src string, wantInfo bool) (*types.Package, *ast.File, bool, bool) {
	fset := token.NewFileSet()
	f, err := parser.ParseFile(fset, "p.go", src, 0)
	if err != nil {
		return nil, nil, false, false
	}
	bad := false
	var info *types.Info
	if wantInfo {
		info = &types.Info{Types: map[ast.Expr]types.TypeAndValue{}}
	}
	conf := types.Config{Importer: importer.Default(), Error: func(error) { bad = true }}
	pkg, _ := conf.Check("example.com/p", fset, []*ast.File{f}, info)
	constBool := false
	if info != nil {
		for e, tv := range info.Types {
			if _, isBin := e.(*ast.BinaryExpr); isBin && tv.Value != nil {
				if b, isB := tv.Type.Underlying().(*types.Basic); isB && b.Info()&types.IsBoolean != 0 {
					constBool = true
				}
			}
		}
	}
	return pkg, f, constBool, !bad
}

func VerifH_C02_roundtrip() {
	g := &verifGen{}
	tmpl := vp.Choose("stmt", verifNStmt)
	g.focus = 1 + vp.Choose("focus", 14)
	if vp.Thorough() {
		g.focus2 = g.focus + vp.Choose("focus2", 2) // 0: none; 1: the next hole ranges over its pool too
		if g.focus2 == g.focus {
			g.focus2 = 0
		}
	}
	body := g.stmtWith(tmpl, 2)
	vp.Assume(g.focus <= g.n && g.focus2 <= g.n) // the focus holes exist
	vp.Observe("body", body)
	src := verifRTHeader + "\nfunc body() {\n" + body + "\nb = 7\n}\n"
	upkg, file, constBool, valid := verifTypeCheckInfo(src, true)
	vp.Fact("constbool", verifB2I(constBool))
	vp.Assert("ALL.roundtrip.generator.valid", valid) // the grammar only produces valid Go
	if !valid {
		return
	}
	orig := verifFindFunc(file, "body")
	conf := &Config{Types: upkg, Importer: verifImporter{}, HandleErr: func(err error) { panic(err) }}
	pkg := NewPackage("", "p", conf)
	fe := &verifFE{pkg: pkg, labels: map[string]*Label{}}
	var out bytes.Buffer
	balanced := false
	class, perr := vp.TryVal(func() {
		fe.cb = pkg.NewFunc(nil, "body2", nil, nil, false).BodyStart(pkg)
		fe.declareLabels(orig.Body.List)
		fe.stmts(orig.Body.List)
		fe.cb.End()
		balanced = pkg.CB().InternalStack().Len() == 0 && pkg.CB().Scope() == pkg.Types.Scope() && pkg.CB().Func() == nil
		if err := WriteTo(&out, pkg); err != nil {
			panic(err)
		}
	})
	if class == vp.NoPanic {
		vp.Assert("C16.roundtrip.balanced", balanced)
		vp.Assert("C16.roundtrip.stmtbalanced", fe.unbalanced == 0) // every completed statement leaves the stack where it was
	}
	vp.Assert("C17.roundtrip.nofault", class != vp.FaultPanic)
	vp.Assert("C02.roundtrip.accepted", class == vp.NoPanic)
	if class != vp.NoPanic {
		vp.Observe("error", verifErrText(perr))
		return
	}
	text := out.String()
	vp.Observe("text", text)
	fset := token.NewFileSet()
	of, err := parser.ParseFile(fset, "out.go", text, 0)
	vp.Assert("C01,C12.roundtrip.parses", err == nil)
	if err != nil {
		return
	}
	got := verifFindFunc(of, "body2")
	vp.Assert("C02.roundtrip.emitted", got != nil && got.Body != nil)
	if got == nil || got.Body == nil {
		return
	}
	vp.Assert("C02,C12.roundtrip.same", vp.Canon(got.Body) == vp.Canon(orig.Body))
	// soundness: the emitted function type-checks in the original environment
	i := strings.Index(text, "func body2")
	if i >= 0 {
		_, _, ok := verifTypeCheck(src + "\n" + text[i:])
		vp.Assert("C01.roundtrip.sound", ok)
	}
	vp.Cover("ALL.roundtrip.end", true)
}
