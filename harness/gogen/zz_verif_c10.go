//go:build verif

package gogen

// C10: missing-return and label diagnostics coincide with Go's.
// The terminating-statement analysis is compared with go/types' own implementation
// (return.go), which the engine executes as SSA next to gogen's port.

import (
	"go/ast"
	"go/token"
	"go/types"
	"reflect"
	"unsafe"
	_ "unsafe"

	"github.com/goplus/gogen/internal/vp"
)

//go:linkname verifTypesIsTerminating go/types.(*Checker).isTerminating
func verifTypesIsTerminating(check *types.Checker, s ast.Stmt, label string) bool

// verifSetIsPanic sets check.isPanic (unexported); the engine intercepts this function.
func verifSetIsPanic(check *types.Checker, calls []*ast.CallExpr) {
	m := map[*ast.CallExpr]bool{}
	for _, c := range calls {
		m[c] = true
	}
	f := reflect.ValueOf(check).Elem().FieldByName("isPanic")
	reflect.NewAt(f.Type(), unsafe.Pointer(f.UnsafeAddr())).Elem().Set(reflect.ValueOf(m))
}

type verifTreeGen struct {
	panics []*ast.CallExpr
	n      int
}

func (g *verifTreeGen) name(tag string) string {
	g.n++
	return tag + string(rune('a'+g.n%26)) + string(rune('a'+(g.n/26)%26))
}

func (g *verifTreeGen) label(tag string) *ast.Ident {
	l := vp.Pick(g.name(tag+".lbl"), "", "L", "M")
	if l == "" {
		return nil
	}
	return &ast.Ident{Name: l}
}

func (g *verifTreeGen) list(tag string, depth int, maxLen int) []ast.Stmt {
	n := vp.Choose(g.name(tag+".len"), maxLen+1)
	var l []ast.Stmt
	for i := 0; i < n; i++ {
		l = append(l, g.stmt(tag, depth))
	}
	if vp.Choose(g.name(tag+".trailEmpty"), 2) == 1 {
		l = append(l, &ast.EmptyStmt{})
	}
	return l
}

func (g *verifTreeGen) clauses(tag string, depth int, comm bool) *ast.BlockStmt {
	n := vp.Choose(g.name(tag+".ncl"), 3)
	b := &ast.BlockStmt{}
	for i := 0; i < n; i++ {
		body := g.list(tag, depth, 1)
		isDefault := vp.Bool(g.name(tag + ".default"))
		if comm {
			cc := &ast.CommClause{Body: body}
			if !isDefault {
				cc.Comm = &ast.ExprStmt{X: &ast.Ident{Name: "rx"}}
			}
			b.List = append(b.List, cc)
		} else {
			cc := &ast.CaseClause{Body: body}
			if !isDefault {
				cc.List = []ast.Expr{&ast.Ident{Name: "v"}}
			}
			b.List = append(b.List, cc)
		}
	}
	return b
}

// stmt generates one statement: structure by forking, scalars (branch token, labels,
// optional parts, membership in the panic set) symbolic.
func (g *verifTreeGen) stmt(tag string, depth int) ast.Stmt {
	nk := 13
	if depth == 0 {
		nk = 5
	}
	switch vp.Choose(g.name(tag+".kind"), nk) {
	case 0:
		return &ast.EmptyStmt{}
	case 1:
		call := &ast.CallExpr{Fun: &ast.Ident{Name: "panic"}}
		if vp.Bool(g.name(tag + ".isPanic")) {
			g.panics = append(g.panics, call)
		}
		var x ast.Expr = call
		if vp.Bool(g.name(tag + ".paren")) {
			x = &ast.ParenExpr{X: x}
		}
		return &ast.ExprStmt{X: x}
	case 2:
		return &ast.ReturnStmt{}
	case 3:
		tok := vp.Tok(g.name(tag+".tok"), token.BREAK, token.CONTINUE, token.GOTO, token.FALLTHROUGH)
		return &ast.BranchStmt{Tok: tok, Label: g.label(tag)}
	case 4:
		switch vp.Choose(g.name(tag+".simple"), 4) {
		case 0:
			return &ast.AssignStmt{Tok: token.ASSIGN}
		case 1:
			return &ast.IncDecStmt{Tok: token.INC}
		case 2:
			return &ast.DeferStmt{Call: &ast.CallExpr{Fun: &ast.Ident{Name: "f"}}}
		}
		return &ast.DeclStmt{Decl: &ast.GenDecl{Tok: token.VAR}}
	case 5:
		return &ast.BlockStmt{List: g.list(tag, depth-1, 2)}
	case 6:
		s := &ast.IfStmt{Cond: &ast.Ident{Name: "c"}, Body: &ast.BlockStmt{List: g.list(tag, depth-1, 1)}}
		switch vp.Choose(g.name(tag+".else"), 3) {
		case 1:
			s.Else = &ast.BlockStmt{List: g.list(tag, depth-1, 1)}
		case 2:
			s.Else = &ast.IfStmt{Cond: &ast.Ident{Name: "c"}, Body: &ast.BlockStmt{List: g.list(tag, depth-1, 1)}}
		}
		return s
	case 7:
		return &ast.SwitchStmt{Body: g.clauses(tag, depth-1, false)}
	case 8:
		return &ast.TypeSwitchStmt{Assign: &ast.ExprStmt{X: &ast.Ident{Name: "x"}}, Body: g.clauses(tag, depth-1, false)}
	case 9:
		return &ast.SelectStmt{Body: g.clauses(tag, depth-1, true)}
	case 10:
		s := &ast.ForStmt{Body: &ast.BlockStmt{List: g.list(tag, depth-1, 1)}}
		if vp.Bool(g.name(tag + ".cond")) {
			s.Cond = &ast.Ident{Name: "c"}
		}
		return s
	case 11:
		return &ast.RangeStmt{X: &ast.Ident{Name: "xs"}, Body: &ast.BlockStmt{List: g.list(tag, depth-1, 1)}}
	}
	l := vp.Pick(g.name(tag+".deflbl"), "L", "M")
	return &ast.LabeledStmt{Label: &ast.Ident{Name: l}, Stmt: g.stmt(tag, depth-1)}
}

func verifTermHarness(depth int, topLen int) {
	g := &verifTreeGen{}
	body := &ast.BlockStmt{List: g.list("s", depth, topLen)}
	label := vp.Pick("toplabel", "", "L")
	panicCalls := map[*ast.CallExpr]none{}
	for _, c := range g.panics {
		panicCalls[c] = none{}
	}
	mine := (&termChecker{panicCalls}).isTerminating(body, label)
	check := new(types.Checker)
	verifSetIsPanic(check, g.panics)
	theirs := verifTypesIsTerminating(check, body, label)
	vp.Observe("gogen", mine)
	vp.Observe("gotypes", theirs)
	vp.Assert("C10.term.equal", mine == theirs)
	vp.Cover("ALL.c10.terminating", mine)
	vp.Cover("ALL.c10.notterminating", !mine)
}

// Statement trees of nesting depth 1 (quick) / 2 (thorough).
func VerifH_C10_term() {
	if vp.Thorough() {
		verifTermHarness(2, 1)
	} else {
		verifTermHarness(1, 1)
	}
}

// ---------------------------------------------------------------------------
// labels: an error is delivered iff a label is defined twice or defined and never used

func VerifH_C10_labels() {
	var errs []string
	conf := &Config{Importer: verifImporter{}, HandleErr: func(err error) { errs = append(errs, err.Error()) }}
	pkg := NewPackage("", "main", conf)
	cb := pkg.NewFunc(nil, "f", nil, nil, false).BodyStart(pkg)
	names := []string{"L", "M"}
	var labels [2]*Label
	var defs, uses [2]int
	nops := 4
	for i := 0; i < nops; i++ {
		st := string(rune('a' + i))
		op := vp.Choose("op"+st, 5)
		k := vp.Choose("lbl"+st, 2)
		switch op {
		case 0: // define
			l := cb.NewLabel(token.NoPos, token.NoPos, names[k])
			if defs[k] == 0 {
				vp.Assert("C10.label.first", l != nil)
				labels[k] = l
				if l != nil {
					cb.Label(l)
					cb.Val(verifNonConst("v", types.Typ[types.Int])).EndStmt()
				}
			} else {
				vp.Assert("C10.label.dupnil", l == nil)
			}
			defs[k]++
		case 1, 2, 3: // goto / break / continue to a defined label
			if labels[k] == nil {
				continue
			}
			switch op {
			case 1:
				cb.Goto(labels[k])
			case 2:
				cb.Break(labels[k])
			default:
				cb.Continue(labels[k])
			}
			uses[k]++
		case 4: // unrelated statement
			cb.Val(verifNonConst("v", types.Typ[types.Int])).EndStmt()
		}
	}
	cb.End()
	want := 0
	for k := 0; k < 2; k++ {
		if defs[k] > 1 {
			want += defs[k] - 1 // each redefinition reported once
		}
		if defs[k] >= 1 && uses[k] == 0 {
			want++ // defined and not used
		}
	}
	vp.Observe("nerr", len(errs))
	vp.Assert("C10.label.count", len(errs) == want)
}

// ---------------------------------------------------------------------------
// missing return is reported by Func.End exactly for non-terminating bodies of functions with results

func VerifH_C10_missingReturn() {
	var errs []string
	conf := &Config{Importer: verifImporter{}, HandleErr: func(err error) { errs = append(errs, err.Error()) }}
	pkg := NewPackage("", "main", conf)
	hasResult := vp.Bool("hasResult")
	var results *types.Tuple
	if hasResult {
		results = types.NewTuple(pkg.NewParam(token.NoPos, "", types.Typ[types.Int], false))
	}
	cb := pkg.NewFunc(nil, "f", nil, results, false).BodyStart(pkg)
	ret := func() {
		if hasResult {
			cb.Val(verifNonConst("v", types.Typ[types.Int])).Return(1)
		} else {
			cb.Return(0)
		}
	}
	tbool := types.Typ[types.Bool]
	terminating := false
	switch vp.Choose("shape", 9) {
	case 0: // empty body
	case 1:
		ret()
		terminating = true
	case 2: // if without else
		cb.If().Val(verifNonConst("c", tbool)).Then()
		ret()
		cb.End()
	case 3: // if/else both returning
		cb.If().Val(verifNonConst("c", tbool)).Then()
		ret()
		cb.Else()
		ret()
		cb.End()
		terminating = true
	case 4: // for {}
		cb.For().None().Then().End()
		terminating = true
	case 5: // for c {}
		cb.For().Val(verifNonConst("c", tbool)).Then().End()
	case 6: // for { break }
		cb.For().None().Then().Break(nil).End()
	case 7: // switch with default, all returning
		cb.Switch().None().Then()
		cb.Case().Val(verifNonConst("c", tbool)).Then()
		ret()
		cb.End()
		cb.DefaultThen()
		ret()
		cb.End()
		cb.End()
		terminating = true
	case 8: // trailing statement after return
		ret()
		cb.Val(verifNonConst("v", types.Typ[types.Int])).EndStmt()
	}
	cb.End()
	missing := 0
	for _, e := range errs {
		if len(e) >= 14 && e[len(e)-14:] == "missing return" {
			missing++
		}
	}
	want := 0
	if hasResult && !terminating {
		want = 1
	}
	vp.Assert("C10.missingreturn", missing == want)
}

// Two statements at the top level (the last non-empty one decides), depth 1.
func VerifH_C10_term2() {
	verifTermHarness(1, 2)
}

// ---------------------------------------------------------------------------
// Compositional step: the children of one construct are *holes*; each hole stands for
// any of a family of concrete subtrees, selected by a symbolic index.  Calls of the two
// analyses on a hole evaluate the real code on every candidate (no fork: the candidates
// are concrete) and merge the results by the selector.  The parent level is executed
// symbolically over all children at once, so independent children do not multiply paths.

//go:linkname verifTypesHasBreak go/types.hasBreak
func verifTypesHasBreak(s ast.Stmt, label string, implicit bool) bool

const verifHoleBase = 1000

func verifCandidates(panics *[]*ast.CallExpr) []ast.Stmt {
	id := func(n string) *ast.Ident { return &ast.Ident{Name: n} }
	ret := func() ast.Stmt { return &ast.ReturnStmt{} }
	brk := func(l string) ast.Stmt {
		b := &ast.BranchStmt{Tok: token.BREAK}
		if l != "" {
			b.Label = id(l)
		}
		return b
	}
	blk := func(ss ...ast.Stmt) *ast.BlockStmt { return &ast.BlockStmt{List: ss} }
	pcall := &ast.CallExpr{Fun: id("panic")}
	*panics = append(*panics, pcall)
	notPanic := &ast.CallExpr{Fun: id("panic")}
	return []ast.Stmt{
		&ast.AssignStmt{Tok: token.ASSIGN},
		ret(),
		brk(""),
		brk("L"),
		brk("M"),
		&ast.BranchStmt{Tok: token.GOTO, Label: id("L")},
		&ast.BranchStmt{Tok: token.CONTINUE},
		&ast.BranchStmt{Tok: token.FALLTHROUGH},
		&ast.EmptyStmt{},
		blk(brk(""), ret()),
		blk(brk("L"), ret()),
		&ast.ExprStmt{X: pcall},
		&ast.ExprStmt{X: &ast.ParenExpr{X: notPanic}},
		&ast.ForStmt{Body: blk()},
		&ast.ForStmt{Body: blk(brk(""))},
		&ast.ForStmt{Body: blk(brk("L"))},
		&ast.ForStmt{Cond: id("c"), Body: blk(ret())},
		&ast.IfStmt{Cond: id("c"), Body: blk(ret()), Else: blk(ret())},
		&ast.IfStmt{Cond: id("c"), Body: blk(brk("L")), Else: blk(ret())},
		&ast.IfStmt{Cond: id("c"), Body: blk(ret())},
		&ast.SelectStmt{Body: blk()},
		&ast.SwitchStmt{Body: blk(&ast.CaseClause{Body: []ast.Stmt{ret()}})},
		&ast.SwitchStmt{Body: blk(&ast.CaseClause{Body: []ast.Stmt{brk(""), ret()}})},
		&ast.LabeledStmt{Label: id("L"), Stmt: &ast.ForStmt{Body: blk(brk("L"))}},
		&ast.RangeStmt{X: id("xs"), Body: blk(brk("M"))},
	}
}

type verifHoles struct {
	cands  []ast.Stmt
	sel    []int
	panics []*ast.CallExpr
}

func (h *verifHoles) hole() ast.Stmt {
	i := len(h.sel)
	s := vp.Int("hole"+string(rune('a'+i)), 0, len(h.cands)-1)
	h.sel = append(h.sel, s)
	if vp.Symbolic() {
		return &ast.BadStmt{From: token.Pos(verifHoleBase + i)}
	}
	return h.cands[s]
}

func (h *verifHoles) index(s ast.Stmt) (int, bool) {
	if b, ok := s.(*ast.BadStmt); ok && b.From >= verifHoleBase {
		return int(b.From) - verifHoleBase, true
	}
	return 0, false
}

func (h *verifHoles) install(tc *termChecker, check *types.Checker) {
	if !vp.Symbolic() {
		return
	}
	vp.StubPre("(*github.com/goplus/gogen.termChecker).isTerminating", func(c *termChecker, s ast.Stmt, label string) (bool, bool) {
		i, ok := h.index(s)
		if !ok {
			return false, false
		}
		r := false
		for k, cand := range h.cands {
			r = vp.Ite(h.sel[i] == k, c.isTerminating(cand, label), r)
		}
		return true, r
	})
	vp.StubPre("github.com/goplus/gogen.hasBreak", func(s ast.Stmt, label string, isTarget bool) (bool, bool) {
		i, ok := h.index(s)
		if !ok {
			return false, false
		}
		r := false
		for k, cand := range h.cands {
			r = vp.Ite(h.sel[i] == k, hasBreak(cand, label, isTarget), r)
		}
		return true, r
	})
	vp.StubPre("(*go/types.Checker).isTerminating", func(c *types.Checker, s ast.Stmt, label string) (bool, bool) {
		i, ok := h.index(s)
		if !ok {
			return false, false
		}
		r := false
		for k, cand := range h.cands {
			r = vp.Ite(h.sel[i] == k, verifTypesIsTerminating(c, cand, label), r)
		}
		return true, r
	})
	vp.StubPre("go/types.hasBreak", func(s ast.Stmt, label string, implicit bool) (bool, bool) {
		i, ok := h.index(s)
		if !ok {
			return false, false
		}
		r := false
		for k, cand := range h.cands {
			r = vp.Ite(h.sel[i] == k, verifTypesHasBreak(cand, label, implicit), r)
		}
		return true, r
	})
}

func (h *verifHoles) holes(n int) []ast.Stmt {
	var l []ast.Stmt
	for i := 0; i < n; i++ {
		l = append(l, h.hole())
	}
	return l
}

func (h *verifHoles) holeClauses(comm bool, nclauses int, defaultAt int) *ast.BlockStmt {
	b := &ast.BlockStmt{}
	for i := 0; i < nclauses; i++ {
		body := h.holes(2)
		if comm {
			cc := &ast.CommClause{Body: body}
			if i != defaultAt {
				cc.Comm = &ast.ExprStmt{X: &ast.Ident{Name: "rx"}}
			}
			b.List = append(b.List, cc)
		} else {
			cc := &ast.CaseClause{Body: body}
			if i != defaultAt {
				cc.List = []ast.Expr{&ast.Ident{Name: "v"}}
			}
			b.List = append(b.List, cc)
		}
	}
	return b
}

func VerifH_C10_step() {
	h := &verifHoles{}
	h.cands = verifCandidates(&h.panics)
	var parent ast.Stmt
	kind := vp.Choose("parent", 9)
	switch kind {
	case 0:
		parent = &ast.BlockStmt{List: h.holes(3)}
	case 1:
		s := &ast.IfStmt{Cond: &ast.Ident{Name: "c"}, Body: &ast.BlockStmt{List: h.holes(2)}}
		switch vp.Choose("else", 3) {
		case 1:
			s.Else = &ast.BlockStmt{List: h.holes(2)}
		case 2:
			s.Else = &ast.IfStmt{Cond: &ast.Ident{Name: "c"}, Body: &ast.BlockStmt{List: h.holes(1)}, Else: &ast.BlockStmt{List: h.holes(1)}}
		}
		parent = s
	case 2, 3, 4:
		ncl := vp.Choose("ncl", 3)
		def := vp.Choose("default", 3) - 1
		body := h.holeClauses(kind == 4, ncl, def)
		switch kind {
		case 2:
			parent = &ast.SwitchStmt{Body: body}
		case 3:
			parent = &ast.TypeSwitchStmt{Assign: &ast.ExprStmt{X: &ast.Ident{Name: "x"}}, Body: body}
		default:
			parent = &ast.SelectStmt{Body: body}
		}
	case 5:
		s := &ast.ForStmt{Body: &ast.BlockStmt{List: h.holes(2)}}
		if vp.Choose("cond", 2) == 1 {
			s.Cond = &ast.Ident{Name: "c"}
		}
		parent = s
	case 6:
		parent = &ast.RangeStmt{X: &ast.Ident{Name: "xs"}, Body: &ast.BlockStmt{List: h.holes(2)}}
	case 7:
		parent = &ast.LabeledStmt{Label: &ast.Ident{Name: vp.Pick("deflabel", "L", "M")}, Stmt: h.hole()}
	case 8:
		parent = h.hole()
	}
	// the parent sits in a function body, possibly labelled and followed by an empty statement
	var top ast.Stmt = parent
	if vp.Choose("labelled", 2) == 1 {
		top = &ast.LabeledStmt{Label: &ast.Ident{Name: "L"}, Stmt: parent}
	}
	list := []ast.Stmt{h.hole(), top}
	if vp.Choose("trailEmpty", 2) == 1 {
		list = append(list, &ast.EmptyStmt{})
	}
	body := &ast.BlockStmt{List: list}
	label := vp.Pick("toplabel", "", "L")
	panicCalls := map[*ast.CallExpr]none{}
	for _, c := range h.panics {
		panicCalls[c] = none{}
	}
	tc := &termChecker{panicCalls}
	check := new(types.Checker)
	verifSetIsPanic(check, h.panics)
	h.install(tc, check)
	mine := tc.isTerminating(body, label)
	theirs := verifTypesIsTerminating(check, body, label)
	vp.Observe("gogen", mine)
	vp.Observe("gotypes", theirs)
	vp.Assert("C10.step.equal", mine == theirs)
	vp.Cover("ALL.c10.step.terminating", mine)
	vp.Cover("ALL.c10.step.notterminating", !mine)
}
