//go:build verif

package gogen

import (
	"go/ast"
	"go/constant"
	"go/token"
	"go/types"

	"github.com/goplus/gogen/internal/vp"
)

var verifIntKinds = []types.BasicKind{types.Int, types.Int8, types.Int16, types.Int32, types.Int64,
	types.Uint, types.Uint8, types.Uint16, types.Uint32, types.Uint64, types.Uintptr}

// verifIntRange is the specification's value range of an integer kind (64-bit platform).
func verifIntRange(k types.BasicKind) (lo, hi constant.Value) {
	one := constant.MakeInt64(1)
	pow := func(n uint) constant.Value { return constant.Shift(one, token.SHL, n) }
	neg := func(v constant.Value) constant.Value { return constant.UnaryOp(token.SUB, v, 0) }
	dec := func(v constant.Value) constant.Value { return constant.BinaryOp(v, token.SUB, one) }
	switch k {
	case types.Int8:
		return neg(pow(7)), dec(pow(7))
	case types.Int16:
		return neg(pow(15)), dec(pow(15))
	case types.Int32:
		return neg(pow(31)), dec(pow(31))
	case types.Int64, types.Int:
		return neg(pow(63)), dec(pow(63))
	case types.Uint8:
		return constant.MakeInt64(0), dec(pow(8))
	case types.Uint16:
		return constant.MakeInt64(0), dec(pow(16))
	case types.Uint32:
		return constant.MakeInt64(0), dec(pow(32))
	}
	return constant.MakeInt64(0), dec(pow(64))
}

func VerifH_SMOKE_outOfRange() {
	k := vp.Kind("tkind", verifIntKinds...)
	c := vp.ConstNum("c")
	got := outOfRange(k, c)
	lo, hi := verifIntRange(k)
	want := constant.Compare(c, token.LSS, lo) || constant.Compare(c, token.GTR, hi)
	vp.Observe("got", got)
	vp.Assert("SMOKE.outOfRange", got == want)
	vp.Cover("SMOKE.in", !got)
	vp.Cover("SMOKE.out", got)
}

type verifImporter struct{}

func (verifImporter) Import(path string) (*types.Package, error) {
	return nil, syscallENOENT
}

var syscallENOENT = verifErr("no imports in harness")

type verifErr string

func (e verifErr) Error() string { return string(e) }

// verifNewPkg builds a default-configured package without touching the file system.
func verifNewPkg() *Package {
	conf := &Config{Importer: verifImporter{}, HandleErr: func(err error) { panic(err) }}
	return NewPackage("", "main", conf)
}

func verifUntypedInt(c constant.Value) *Element {
	return &Element{Val: &ast.BasicLit{Kind: token.INT, Value: "c"}, Type: types.Typ[types.UntypedInt], CVal: c}
}

func VerifH_SMOKE_binop() {
	pkg := verifNewPkg()
	cb := pkg.CB()
	a := vp.ConstInt("a")
	b := vp.ConstInt("b")
	var ret *Element
	cl := vp.Try(func() {
		cb.Val(verifUntypedInt(a)).Val(verifUntypedInt(b)).BinaryOp(token.ADD)
		ret = cb.InternalStack().Pop()
	})
	vp.Assert("SMOKE.binop.noerr", cl == vp.NoPanic)
	if cl == vp.NoPanic {
		vp.Observe("cval", ret.CVal)
		vp.Observe("type", ret.Type)
		vp.Assert("SMOKE.binop.val", constant.Compare(ret.CVal, token.EQL, constant.BinaryOp(a, token.ADD, b)))
	}
}
