//go:build verif

package gogen

// C18: independent packages can be built concurrently.
// The sequential engine decides the non-interference premise: no operation of a build writes
// to package-level state (objects reachable from package variables after initialisation).
// Natively the same operations run on two goroutines under the race detector.

import (
	"bytes"
	"go/ast"
	"go/constant"
	"go/parser"
	"go/token"
	"go/types"
	"strings"
	"sync"

	"github.com/goplus/gogen/internal/vp"
)

var verifC18Ops = []string{"newpkg", "constop", "member", "literals", "underscore", "parenexpr", "closure", "zero", "typeast", "builtinmethod", "switch", "labels", "compare", "overload",
	"anymember", "inlineclosure", "autonames", "units", "timeunits", "generic", "xgoimport", "instantiate", "rtfile0", "rtfile1", "rtfile2", "rtfile3", "rtfile4", "rtfile5", "rtfile6", "rtfile7", "rtbody"}

func verifC18Op(kind string) {
	pkg := verifNewPkg()
	tint := types.Typ[types.Int]
	switch kind {
	case "newpkg":
	case "constop":
		cb := pkg.CB()
		cb.Val(verifUntypedInt2(constant.MakeInt64(3))).Val(verifUntypedInt2(constant.MakeInt64(4))).BinaryOp(token.ADD)
		cb.Val(2).BinaryOp(token.SHL).UnaryOp(token.SUB)
		cb.InternalStack().Pop()
	case "member":
		st := types.NewStruct([]*types.Var{types.NewField(token.NoPos, pkg.Types, "x", tint, false)}, nil)
		nt := types.NewNamed(types.NewTypeName(token.NoPos, pkg.Types, "T", nil), st, nil)
		cb := pkg.CB()
		cb.Val(verifNonConst("v", nt)).Member("x", 0, MemberFlagVal)
		cb.InternalStack().Pop()
		cb.Val(verifNonConst("v", types.NewPointer(nt))).MemberRef("x")
		cb.InternalStack().Pop()
	case "literals":
		cb := pkg.CB()
		cb.Val(nil).Val(true).Val(false).Val("s").Val(1.5).Val('a')
		cb.InternalStack().PopN(6)
	case "underscore":
		cb := pkg.NewFunc(nil, "f", nil, nil, false).BodyStart(pkg)
		cb.VarRef(nil).Val(1).Assign(1).End()
	case "parenexpr":
		st := types.NewStruct(nil, nil)
		cb := pkg.NewFunc(nil, "f", nil, nil, false).BodyStart(pkg)
		cb.If().StructLit(st, 0, false).StructLit(st, 0, false).BinaryOp(token.EQL).Then().End()
		cb.Switch().StructLit(st, 0, false).Then().End()
		cb.End()
	case "closure":
		cb := pkg.NewFunc(nil, "f", nil, nil, false).BodyStart(pkg)
		cb.NewClosure(nil, nil, false).BodyStart(pkg).End().Call(0).EndStmt()
		cb.End()
	case "zero":
		pkg.Zero(types.NewSlice(tint))
		pkg.Zero(tint)
		pkg.Zero(types.NewStruct(nil, nil))
		pkg.CB().ZeroLit(types.NewArray(tint, 2)).InternalStack().Pop()
	case "typeast":
		TypeAST(pkg, types.NewChan(types.SendRecv, types.NewChan(types.RecvOnly, tint)))
		TypeAST(pkg, types.NewSignatureType(nil, nil, nil, types.NewTuple(types.NewVar(token.NoPos, pkg.Types, "a", types.NewSlice(tint))), nil, true))
	case "builtinmethod":
		cb := pkg.CB()
		vp.Try(func() { cb.Val(verifNonConst("s", types.Typ[types.String])).Member("len", 0, MemberFlagVal) })
	case "switch":
		cb := pkg.NewFunc(nil, "f", nil, nil, false).BodyStart(pkg)
		cb.Switch().Val(verifNonConst("v", tint)).Then().Case().Val(1).Then().End().DefaultThen().End().End()
		cb.TypeSwitch("t").Val(verifNonConst("i", TyEmptyInterface)).TypeAssertThen().TypeCase().Typ(tint).Then().End().End()
		cb.ForRange("k", "v").Val(verifNonConst("xs", types.NewSlice(tint))).RangeAssignThen(token.NoPos).End()
		cb.End()
	case "labels":
		cb := pkg.NewFunc(nil, "f", nil, nil, false).BodyStart(pkg)
		l := cb.NewLabel(token.NoPos, token.NoPos, "L")
		cb.Label(l).For().None().Then().Break(l).End().Goto(l).End()
	case "compare":
		a := &Element{Val: &ast.Ident{Name: "a"}, Type: tint}
		b := &Element{Val: &ast.Ident{Name: "b"}, Type: types.Typ[types.UntypedFloat], CVal: constant.MakeFloat64(0.5)}
		ComparableTo(pkg, a, b)
		AssignableTo(pkg, tint, TyEmptyInterface)
		ConvertibleTo(pkg, tint, types.Typ[types.String])
	case "anymember": // member access / string-key indexing on an any value needs generated names
		cb := pkg.NewFunc(nil, "f", nil, nil, false).BodyStart(pkg)
		vp.Try(func() { cb.Val(verifNonConst("z", TyEmptyInterface)).MemberVal("fld", 0).EndStmt() })
		vp.Try(func() { cb.Val(verifNonConst("z", TyEmptyInterface)).Val("k").Index(1, 0).EndStmt() })
		vp.Try(func() { cb.Val(verifNonConst("z", TyEmptyInterface)).MemberRef("fld").Val(1).Assign(1).EndStmt() })
		vp.Try(func() { cb.End() })
	case "inlineclosure":
		ret := types.NewParam(token.NoPos, pkg.Types, "ret", tint)
		sig := types.NewSignatureType(nil, nil, nil, nil, types.NewTuple(ret), false)
		cb := pkg.NewFunc(nil, "f", nil, nil, false).BodyStart(pkg)
		vp.Try(func() {
			cb.DefineVarStart(0, "n").CallInlineClosureStart(sig, 0, false).Val(1).Return(1).End().EndInit(1).End()
		})
	case "autonames":
		for i := 0; i < 12; i++ {
			pkg.autoName()
		}
	case "rtfile0", "rtfile1", "rtfile2", "rtfile3", "rtfile4", "rtfile5", "rtfile6", "rtfile7":
		g := &verifGen{focus: -1}
		verifC18Build("package p\n\n" + verifDeclFile(int(kind[6]-'0'), g))
	case "rtbody":
		g := &verifGen{focus: -1}
		body := ""
		for _, tmpl := range []int{1, 11, 21, 26, 31, 34, 36, 37, 42, 45, 48} {
			body += "{\n" + g.stmtWith(tmpl, 2) + "\n}\n"
		}
		verifC18Build(strings.TrimPrefix(verifRTHeader, "package p\n") + "\nfunc body() {\n" + body + "}\n")
	case "units", "timeunits": // literals with units: 3m of phys.Length, 500ms of time.Duration
		src, path, tname, unit := "package phys\n\ntype Length int\n\nconst XGou_Length = \"mm=1,cm=10,m=1000\"\n", "example.com/phys", "Length", "m"
		if kind == "timeunits" {
			src, path, tname, unit = "package time\n\ntype Duration int64\n", "time", "Duration", "ms"
		}
		fset := token.NewFileSet()
		f, err := parser.ParseFile(fset, "u.go", src, 0)
		if err != nil {
			panic(err)
		}
		up, err := (&types.Config{}).Check(path, fset, []*ast.File{f}, nil)
		if err != nil {
			panic(err)
		}
		pkg = NewPackage("", "main", &Config{Importer: verifMapImporter{path: up}, HandleErr: func(err error) { panic(err) }})
		cb := pkg.NewFunc(nil, "f", nil, nil, false).BodyStart(pkg)
		cb.ValWithUnit(&ast.BasicLit{Kind: token.INT, Value: "3"}, up.Scope().Lookup(tname).Type(), unit).EndStmt()
		cb.End()
	case "generic": // generic calls with inference, explicit and partial instantiation
		src := verifC07Header + "\nfunc body() {\n_ = Sum(i, 1)\n_ = Map(si, fis)\n_ = Conv[int8](f64)\n_ = Apply(Id, 1)\n_ = First(mi)\n_ = MkList(i8).Get()\n}\n"
		upkg, file, ok, _, _, _, _ := verifC07Check(src, "body")
		if !ok {
			panic("generic workload does not type-check")
		}
		pkg = NewPackage("", "p", &Config{Types: upkg, Importer: verifImporter{}, HandleErr: func(err error) { panic(err) }})
		fe := &verifFE{pkg: pkg, labels: map[string]*Label{}}
		fe.cb = pkg.NewFunc(nil, "body2", nil, nil, false).BodyStart(pkg)
		fe.stmts(verifFindFunc(file, "body").Body.List)
		fe.cb.End()
		var out bytes.Buffer
		if err := WriteTo(&out, pkg); err != nil {
			panic(err)
		}
	case "instantiate":
		upkg, _ := verifUniverse(verifGenericExtra)
		pkg = NewPackage("", "u", &Config{Types: upkg, Importer: verifImporter{}, HandleErr: func(err error) { panic(err) }})
		t := pkg.Instantiate(upkg.Scope().Lookup("G2").Type(), []types.Type{types.Typ[types.String], tint})
		TypeAST(pkg, t)
		pkg.Zero(t)
	case "xgoimport": // an imported XGo package with function and method overload families
		src := "package ovl\n\nconst XGoPackage = true\n\ntype Game struct{}\n\nfunc Put__0(x int) int { return 0 }\nfunc Put__1(x string) int { return 0 }\nfunc (g *Game) RunInt(x int) {}\nfunc (g *Game) Run__1(x string) {}\n\nconst XGoo_Game_Run = \".RunInt,\"\n"
		fset := token.NewFileSet()
		f, err := parser.ParseFile(fset, "ovl.go", src, 0)
		if err != nil {
			panic(err)
		}
		ovl, err := (&types.Config{}).Check("example.com/ovl", fset, []*ast.File{f}, nil)
		if err != nil {
			panic(err)
		}
		pkg = NewPackage("", "main", &Config{Importer: verifMapImporter{"example.com/ovl": ovl}, HandleErr: func(err error) { panic(err) }})
		ref := pkg.Import("example.com/ovl")
		cb := pkg.NewFunc(nil, "f", nil, nil, false).BodyStart(pkg)
		cb.Val(ref.Ref("Put")).Val("s").Call(1).EndStmt()
		cb.Val(verifNonConst("g", types.NewPointer(ref.Ref("Game").Type()))).MemberVal("Run", 0).Val("s").Call(1).EndStmt()
		cb.End()
	case "overload":
		sig := types.NewSignatureType(nil, nil, nil, types.NewTuple(types.NewParam(token.NoPos, pkg.Types, "a", tint)), nil, false)
		f0 := types.NewFunc(token.NoPos, pkg.Types, "f__0", sig)
		ov := NewOverloadFunc(token.NoPos, pkg.Types, "f", f0)
		cb := pkg.CB()
		cb.Val(ov).Val(1).Call(1)
		cb.InternalStack().Pop()
	}
}

// verifC18Build compiles a whole file through the front end and writes it out.
func verifC18Build(body string) {
	src := body
	if !strings.HasPrefix(src, "package") {
		src = "package p\n\n" + body
	}
	f, err := parser.ParseFile(token.NewFileSet(), "p.go", src, 0)
	if err != nil {
		panic(err)
	}
	conf := &Config{Importer: verifImporter{}, HandleErr: func(err error) { panic(err) }}
	pkg := NewPackage("example.com/p", "p", conf)
	fe := &verifFE{pkg: pkg, labels: map[string]*Label{}}
	fe.file(f)
	var out bytes.Buffer
	if err := WriteTo(&out, pkg); err != nil {
		panic(err)
	}
}

func verifUntypedInt2(c constant.Value) *Element {
	return &Element{Val: &ast.BasicLit{Kind: token.INT, Value: "c"}, Type: types.Typ[types.UntypedInt], CVal: c}
}

func VerifH_C18_nointerference() {
	kind := verifC18Ops[vp.Choose("op", len(verifC18Ops))]
	if vp.Symbolic() {
		vp.TrackGlobals(true)
		verifC18Op(kind)
	} else {
		var wg sync.WaitGroup
		for g := 0; g < 2; g++ {
			wg.Add(1)
			go func() {
				defer wg.Done()
				verifC18Op(kind)
			}()
		}
		wg.Wait()
	}
	vp.AssertNoGlobalWrites("C18.noglobalwrite")
}
