//go:build verif

package gogen

// C09 (and C02, C01): round trip of programs whose only references to imported packages sit in one
// or two chosen syntactic positions. The emitted file must import exactly the referenced packages,
// under names that resolve to the packages the builder was given (two of the three packages share
// the base name "util"), and must be the same program up to import naming.

import (
	"bytes"
	"go/ast"
	"go/parser"
	"go/token"
	"go/types"
	"sort"
	"strconv"
	"strings"

	"github.com/goplus/gogen/internal/vp"
)

const verifUtilSrc = `package util

type T struct {
	A int
	B []int
}

func (t T) M() int { return t.A }

type I interface{ M() int }

var V int
var S []int
var P *T

const C = 7

func F(x int) int { return x }
`

var verifFakePaths = []string{"example.com/a/util", "example.com/b/util", "example.com/zed"}
var verifFakeAlias = []string{"util", "util2", "zed"} // spelling used in the original source

type verifMapImporter map[string]*types.Package

func (m verifMapImporter) Import(path string) (*types.Package, error) {
	if p, ok := m[path]; ok {
		return p, nil
	}
	return nil, verifErr("package not found: " + path)
}

func verifFakePkgs() verifMapImporter {
	m := verifMapImporter{}
	for _, path := range verifFakePaths {
		src := verifUtilSrc
		if strings.HasSuffix(path, "zed") {
			src = strings.Replace(src, "package util", "package zed", 1)
		}
		fset := token.NewFileSet()
		f, err := parser.ParseFile(fset, "util.go", src, 0)
		if err != nil {
			panic(err)
		}
		conf := types.Config{}
		pkg, err := conf.Check(path, fset, []*ast.File{f}, nil)
		if err != nil {
			panic(err)
		}
		m[path] = pkg
	}
	return m
}

// positions: %P is the package alias
var verifImportPositions = []string{
	"h(%P.V, str)",                                       // 0 call argument
	"a = %P.F(b)",                                        // 1 callee
	"x := %P.C\n_ = x",                                   // 2 define from a constant
	"if %P.V > 0 {\na++\n}",                              // 3 if condition
	"if x := %P.F(1); x > 0 {\na++\n}",                   // 4 if init
	"for i := 0; i < %P.V; i++ {\n}",                     // 5 for condition
	"for i := 0; i < 3; i += %P.C {\n}",                  // 6 for post
	"for _, v := range %P.S {\n_ = v\n}",                 // 7 range operand
	"switch %P.V {\ncase 1:\n}",                          // 8 switch tag
	"switch a {\ncase %P.C, 1:\n}",                       // 9 case expression
	"switch e.(type) {\ncase %P.T:\n}",                   // 10 type-switch case type
	"switch v := e.(type) {\ncase *%P.T, nil:\n_ = v\n}", // 11 pointer type in a type-switch case
	"z := %P.T{A: 1}\n_ = z",                             // 12 composite literal type
	"z := []int{%P.C: 1}\n_ = z",                         // 13 composite literal key
	"z := map[string]int{\"k\": %P.V}\n_ = z",            // 14 composite literal value
	"fl = float64(%P.V)",                                 // 15 conversion operand
	"fn := func(t %P.T) int { return t.A }\n_ = fn",      // 16 function literal parameter type
	"var z %P.T\n_ = z",                                  // 17 variable declaration type
	"var z map[*%P.T][]%P.T\n_ = z",                      // 18 nested in map key / slice of pointer
	"a = s[%P.C]",                                        // 19 index
	"s = s[%P.V:%P.C]",                                   // 20 slice bounds
	"ch <- %P.V",                                         // 21 send value
	"defer %P.F(1)",                                      // 22 deferred call
	"go %P.F(2)",                                         // 23 go statement
	"L9:\n%P.V++\nif ok {\ngoto L9\n}",                   // 24 labeled statement
	"a = %P.P.M() + %P.P.B[0]",                           // 25 selector chain / method call
	"_, ok = e.(%P.I)",                                   // 26 type assertion to an imported interface
	"var z []%P.I\n_ = z",                                // 27 slice of an imported interface
	"a = (%P.T{}).M()",                                   // 28 method on a literal
	"func() {\n%P.V = 1\n}()",                            // 29 inside a closure body
	"select {\ncase ch <- %P.C:\ncase v := <-ch:\n_ = v + %P.V\n}", // 30 select clauses
	"e = %P.T{B: []int{%P.C}}",                                     // 31 nested literal, assignment to any
	"a += %P.F(%P.C)",                                              // 32 assignment operator
	"_ = &%P.V",                                                    // 33 address-of
	"_ = *%P.P",                                                    // 34 dereference
}

// import-aware front end: verifFE.imports maps source aliases to paths
func (fe *verifFE) importRef(name string) (PkgRef, bool) {
	if fe.imports == nil {
		return PkgRef{}, false
	}
	path, ok := fe.imports[name]
	if !ok {
		return PkgRef{}, false
	}
	if _, o := fe.cb.Scope().LookupParent(name, token.NoPos); o != nil {
		return PkgRef{}, false // shadowed by a declaration
	}
	if r, ok := fe.importRefs[path]; ok {
		return r, true
	}
	r := fe.pkg.Import(path)
	fe.importRefs[path] = r
	return r, true
}

// verifQualify replaces the package identifier of every qualified reference by its import path.
func verifQualify(f *ast.File) (used []string) {
	names := map[string]string{}
	for _, im := range f.Imports {
		path, _ := strconv.Unquote(im.Path.Value)
		name := path[strings.LastIndex(path, "/")+1:]
		if im.Name != nil {
			name = im.Name.Name
		}
		names[name] = path
	}
	seen := map[string]bool{}
	ast.Inspect(f, func(n ast.Node) bool {
		if sel, ok := n.(*ast.SelectorExpr); ok {
			if id, ok := sel.X.(*ast.Ident); ok {
				if path, isPkg := names[id.Name]; isPkg {
					id.Name = "pkg:" + path // in place: the identifier belongs to this selector only
					seen[path] = true
				}
			}
		}
		return true
	})
	for p := range seen {
		used = append(used, p)
	}
	sort.Strings(used)
	return used
}

func verifImportBlock(f *ast.File) (paths []string, names []string) {
	for _, im := range f.Imports {
		path, _ := strconv.Unquote(im.Path.Value)
		paths = append(paths, path)
		name := path[strings.LastIndex(path, "/")+1:]
		if im.Name != nil {
			name = im.Name.Name
		}
		names = append(names, name)
	}
	return
}

func VerifH_C09_roundtrip() {
	npos := len(verifImportPositions)
	p1 := vp.Choose("pos", npos)
	a1 := vp.Choose("pkgA", 3)
	second := 0
	if vp.Thorough() {
		second = vp.Choose("pos2", npos+1)
	} else {
		second = []int{0, 1, 13, 18, 26, 30}[vp.Choose("pos2", 6)]
	}
	body := strings.ReplaceAll(verifImportPositions[p1], "%P", verifFakeAlias[a1])
	if second > 0 {
		a2 := vp.Choose("pkgB", 3)
		body += "\n{\n" + strings.ReplaceAll(strings.ReplaceAll(verifImportPositions[second-1], "%P", verifFakeAlias[a2]), "L9", "L8") + "\n}"
	}
	vp.Observe("body", body)
	imports := ""
	alias := map[string]string{}
	for i, al := range verifFakeAlias {
		if strings.Contains(body, al+".") {
			imports += "import " + al + " \"" + verifFakePaths[i] + "\"\n"
			alias[al] = verifFakePaths[i]
		}
	}
	header := strings.TrimPrefix(verifRTHeader, "package p\n")
	src := "package p\n\n" + imports + header + "\nfunc body() {\n" + body + "\nb = 7\n}\n"
	fakes := verifFakePkgs()
	fset := token.NewFileSet()
	file, perr := parser.ParseFile(fset, "p.go", src, 0)
	valid := perr == nil
	var upkg *types.Package
	if valid {
		bad := false
		tc := types.Config{Importer: fakes, Error: func(error) { bad = true }}
		upkg, _ = tc.Check("example.com/p", fset, []*ast.File{file}, nil)
		valid = !bad
	}
	vp.Assert("ALL.c09rt.generator.valid", valid)
	if !valid {
		return
	}
	orig := verifFindFunc(file, "body")
	conf := &Config{Types: upkg, Importer: fakes, HandleErr: func(err error) { panic(err) }}
	pkg := NewPackage("", "p", conf)
	fe := &verifFE{pkg: pkg, labels: map[string]*Label{}, imports: alias, importRefs: map[string]PkgRef{}}
	var out bytes.Buffer
	// a force-import of the referenced package (before or after the reference is built) or of another one
	force, forced := 0, ""
	if second == 0 {
		force = vp.Choose("force", 4)
	}
	switch force {
	case 1, 2:
		forced = verifFakePaths[a1]
	case 3:
		forced = verifFakePaths[(a1+1)%3]
	}
	class, rerr := vp.TryVal(func() {
		if force == 1 || force == 3 {
			pkg.ForceImport(forced)
		}
		fe.cb = pkg.NewFunc(nil, "body2", nil, nil, false).BodyStart(pkg)
		fe.declareLabels(orig.Body.List)
		fe.stmts(orig.Body.List)
		fe.cb.End()
		if force == 2 {
			pkg.ForceImport(forced)
		}
		if err := WriteTo(&out, pkg); err != nil {
			panic(err)
		}
	})
	vp.Assert("C17.c09rt.nofault", class != vp.FaultPanic)
	vp.Assert("C02.c09rt.accepted", class == vp.NoPanic)
	if class != vp.NoPanic {
		vp.Observe("error", verifErrText(rerr))
		return
	}
	text := out.String()
	vp.Observe("text", text)
	of, err := parser.ParseFile(token.NewFileSet(), "out.go", text, 0)
	vp.Assert("C01,C12.c09rt.parses", err == nil)
	if err != nil {
		return
	}
	got := verifFindFunc(of, "body2")
	vp.Assert("C02.c09rt.emitted", got != nil && got.Body != nil)
	if got == nil || got.Body == nil {
		return
	}
	listed, names := verifImportBlock(of)
	wantUsed := verifQualify(file)
	gotUsed := verifQualify(of)
	sort.Strings(listed)
	wantListed := append([]string{}, wantUsed...)
	if forced != "" {
		have := false
		for _, u := range wantUsed {
			have = have || u == forced
		}
		if !have {
			wantListed = append(wantListed, forced)
			sort.Strings(wantListed)
		}
	}
	vp.Assert("C09.c09rt.imports.exact", strings.Join(listed, ";") == strings.Join(wantListed, ";"))
	vp.Assert("C09.c09rt.refs.resolve", strings.Join(gotUsed, ";") == strings.Join(wantUsed, ";"))
	uniq := true
	for i := range names {
		for j := 0; j < i; j++ {
			if names[i] == names[j] {
				uniq = false
			}
		}
	}
	vp.Assert("C09.c09rt.names.unique", uniq)
	vp.Assert("C02.c09rt.same", vp.Canon(got.Body) == vp.Canon(orig.Body))
	// soundness: the emitted import block and function type-check with the environment
	i := strings.Index(text, "\n")
	if i >= 0 {
		combined := "package p\n" + text[i:] + "\n" + header
		fset2 := token.NewFileSet()
		f2, err2 := parser.ParseFile(fset2, "c.go", combined, 0)
		ok := err2 == nil
		if ok {
			bad := false
			tc := types.Config{Importer: verifFakePkgs(), Error: func(error) { bad = true }}
			tc.Check("example.com/p", fset2, []*ast.File{f2}, nil)
			ok = !bad
		}
		vp.Assert("C01,C09.c09rt.sound", ok)
	}
	vp.Cover("ALL.c09rt.end", true)
}
