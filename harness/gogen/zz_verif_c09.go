//go:build verif

package gogen

// C09: each file imports exactly what it uses, under names that never collide.
// C15: output does not depend on map iteration order.

import (
	"go/ast"
	"go/token"
	"go/types"
	"strconv"

	"github.com/goplus/gogen/internal/vp"
)

type verifImp struct {
	name, path string
	id         *ast.Ident
	used       bool
	forced     bool
	place      int // where the reference sits: 0 call statement, 1 var initialiser, 2 type declaration, 3 labelled statement, 4 nested selector
}

// verifBuildImports: a file with up to three imports (equal base names, distinct paths), each
// referenced from a declaration or not, or force-imported; some package-level names declared.
func verifBuildImports(pkg *Package, imps []*verifImp, declared []string) {
	for _, n := range declared {
		pkg.useName(n)
	}
	f := pkg.file
	var stmts []ast.Stmt
	for _, im := range imps {
		if im.forced {
			f.forceImport(im.path)
			if !im.used {
				continue
			}
		}
		im.id = f.newImport(im.name, im.path)
		if im.used {
			sel := &ast.SelectorExpr{X: im.id, Sel: &ast.Ident{Name: "F"}}
			switch im.place {
			case 0:
				stmts = append(stmts, &ast.ExprStmt{X: &ast.CallExpr{Fun: sel}})
			case 1:
				f.goDecls = append(f.goDecls, &ast.GenDecl{Tok: token.VAR, Specs: []ast.Spec{&ast.ValueSpec{Names: []*ast.Ident{{Name: "v" + im.name}}, Values: []ast.Expr{&ast.CallExpr{Fun: sel}}}}})
			case 2:
				f.goDecls = append(f.goDecls, &ast.GenDecl{Tok: token.TYPE, Specs: []ast.Spec{&ast.TypeSpec{Name: &ast.Ident{Name: "T" + im.name}, Type: &ast.StructType{Fields: &ast.FieldList{List: []*ast.Field{{Names: []*ast.Ident{{Name: "f"}}, Type: sel}}}}}}})
			case 3:
				stmts = append(stmts, &ast.LabeledStmt{Label: &ast.Ident{Name: "L" + im.name}, Stmt: &ast.ExprStmt{X: &ast.CallExpr{Fun: sel}}})
			case 4:
				stmts = append(stmts, &ast.ExprStmt{X: &ast.SelectorExpr{X: sel, Sel: &ast.Ident{Name: "G"}}})
			}
		}
	}
	f.goDecls = append(f.goDecls, &ast.FuncDecl{Name: &ast.Ident{Name: "f"}, Type: &ast.FuncType{Params: &ast.FieldList{}}, Body: &ast.BlockStmt{List: stmts}})
}

type verifSpec struct{ name, path string }

func verifImportSpecs(decls []ast.Decl) (specs []verifSpec, ok bool) {
	if len(decls) == 0 {
		return nil, true
	}
	gd, isGen := decls[0].(*ast.GenDecl)
	if !isGen || gd.Tok != token.IMPORT {
		return nil, true
	}
	for _, s := range gd.Specs {
		is := s.(*ast.ImportSpec)
		p, err := strconv.Unquote(is.Path.Value)
		if err != nil {
			return nil, false
		}
		n := ""
		if is.Name != nil {
			n = is.Name.Name
		}
		specs = append(specs, verifSpec{n, p})
	}
	return specs, true
}

func verifMkImps() []*verifImp {
	all := []*verifImp{{name: "fmt", path: "fmt"}, {name: "fmt", path: "a/fmt"}, {name: "fmt", path: "b/fmt"}, {name: "os", path: "os"}}
	var imps []*verifImp
	for i, im := range all {
		s := string(rune('0' + i))
		nopt := 5
		if i == 3 {
			nopt = 3
		}
		switch vp.Choose("imp"+s, nopt) {
		case 0: // absent
		case 1:
			imps = append(imps, im)
		case 2:
			im.used = true
			imps = append(imps, im)
		case 3:
			im.forced = true
			imps = append(imps, im)
		case 4: // force-imported and referenced
			im.forced, im.used = true, true
			imps = append(imps, im)
		}
		if im.used && i == 0 {
			im.place = vp.Choose("place"+s, 5)
		}
	}
	return imps
}

func VerifH_C09_imports() {
	imps := verifMkImps()
	declared := [][]string{nil, {"fmt"}, {"fmt1"}, {"fmt", "fmt1"}, {"fmt", "fmt1", "fmt2", "os"}, {"fmt2", "os1"}}[vp.Choose("declared", 6)]
	pkg := verifNewPkg()
	verifBuildImports(pkg, imps, declared)
	decls := pkg.file.getDecls(pkg) // (independence of the table's iteration order is C15's harness)
	specs, ok := verifImportSpecs(decls)
	vp.Assert("C09.specs.wellformed", ok)
	// exactly the used and the forced imports, each once
	want := 0
	for _, im := range imps {
		if im.used || im.forced {
			want++
			n := 0
			for _, s := range specs {
				if s.path == im.path {
					n++
					if im.forced && !im.used {
						vp.Assert("C09.forced.blank", s.name == "_")
					} else if im.forced {
						// force-imported and referenced: the reference must still resolve (a blank import cannot be referenced)
						eff := s.name
						if eff == "" {
							eff = im.name
						}
						vp.Assert("C09.forcedused.resolves", s.name != "_" && im.id.Name == eff)
					} else {
						// the reference resolves to this import: the shared identifier carries the spec's name
						eff := s.name
						if eff == "" {
							eff = im.name
						}
						vp.Assert("C09.ref.resolves", im.id.Name == eff)
					}
				}
			}
			vp.Assert("C09.listed.once", n == 1)
		}
	}
	vp.Assert("C09.listed.exact", len(specs) == want)
	// sorted by path
	for i := 1; i < len(specs); i++ {
		vp.Assert("C09.sorted", strconv.Quote(specs[i-1].path) < strconv.Quote(specs[i].path))
	}
	// names unique within the file and different from every declared identifier
	for i, s := range specs {
		if s.name == "_" {
			continue
		}
		eff := s.name
		if eff == "" {
			for _, im := range imps {
				if im.path == s.path {
					eff = im.name
				}
			}
		}
		for _, d := range declared {
			vp.Assert("C09.name.notdeclared", eff != d)
		}
		for j := 0; j < i; j++ {
			o := specs[j]
			oeff := o.name
			if oeff == "" {
				for _, im := range imps {
					if im.path == o.path {
						oeff = im.name
					}
				}
			}
			if o.name != "_" {
				vp.Assert("C09.name.unique", eff != oeff)
			}
		}
	}
	vp.Cover("ALL.c09.some", len(specs) > 0)
}

// auto-generated identifiers never coincide with declared names (users do not declare _autoGo_ names)
func VerifH_C09_autoname() {
	pkg := verifNewPkg()
	n := vp.Choose("n", 4)
	seen := map[string]bool{}
	for i := 0; i < n; i++ {
		name := pkg.autoName()
		vp.Assert("C09.autoname.fresh", !seen[name])
		seen[name] = true
		vp.Assert("C09.autoname.prefix", len(name) > len(goxAutoPrefix) && name[:len(goxAutoPrefix)] == goxAutoPrefix)
	}
}

// ---------------------------------------------------------------------------
// C15

// D1: the import block is independent of the iteration order of the import table
func VerifH_C15_importOrder() {
	render := func(arbitrary bool) []verifSpec {
		imps := []*verifImp{{name: "fmt", path: "fmt", used: true}, {name: "fmt", path: "a/fmt", used: true}, {name: "os", path: "os", forced: true}, {name: "io", path: "io", used: true}}
		switch vp.Choose("table", 4) {
		case 0:
			imps = imps[:2+vp.Choose("nimp", 3)]
		case 1: // two side-effect (blank) imports
			imps = []*verifImp{{name: "os", path: "os", forced: true}, {name: "io", path: "io", forced: true}}
		case 2: // blank imports mixed with a used one
			imps = []*verifImp{{name: "os", path: "os", forced: true}, {name: "fmt", path: "fmt", used: true}, {name: "io", path: "io", forced: true}}
		case 3: // three blank imports, one of them sharing a base name with a used import
			imps = []*verifImp{{name: "fmt", path: "a/fmt", forced: true}, {name: "os", path: "os", forced: true}, {name: "io", path: "io", forced: true}, {name: "fmt", path: "fmt", used: true}}
		}
		pkg := verifNewPkg()
		verifBuildImports(pkg, imps, nil)
		vp.MapOrder(arbitrary)
		decls := pkg.file.getDecls(pkg)
		vp.MapOrder(false)
		specs, _ := verifImportSpecs(decls)
		return specs
	}
	ref := render(false)
	reps := 1
	if !vp.Symbolic() {
		reps = 30 // natively the order is Go's random map order: repeat
	}
	all := true
	for r := 0; r < reps; r++ {
		got := render(true)
		same := len(got) == len(ref)
		for i := 0; same && i < len(ref); i++ {
			same = got[i] == ref[i]
		}
		all = all && same
	}
	vp.Assert("C15.imports.deterministic", all)
}

func verifXGoDep(path string) *types.Package {
	p := types.NewPackage(path, "dep")
	p.Scope().Insert(types.NewConst(token.NoPos, p, xgoPackage1, types.Typ[types.UntypedBool], nil))
	return p
}

// D2: the package marker constant lists extension-package dependencies deterministically
func VerifH_C15_xgoDeps() {
	n := 1 + vp.Choose("ndeps", 3)
	render := func(arbitrary bool) string {
		pkg := NewPackage("example.com/lib", "lib", &Config{Importer: verifImporter{}})
		var params []*types.Var
		for i := 0; i < n; i++ {
			dep := verifXGoDep([]string{"x/b", "x/a", "x/c"}[i])
			t := types.NewNamed(types.NewTypeName(token.NoPos, dep, "T", nil), types.Typ[types.Int], nil)
			params = append(params, types.NewVar(token.NoPos, pkg.Types, "p", t))
		}
		pkg.expObjTypes = append(pkg.expObjTypes, types.NewSignatureType(nil, nil, nil, types.NewTuple(params...), nil, false))
		vp.MapOrder(arbitrary)
		val, ok := checkXGoPkg(pkg)
		vp.MapOrder(false)
		if !ok {
			return "<none>"
		}
		if lit, isLit := val.(*ast.BasicLit); isLit {
			return lit.Value
		}
		return "<ident>"
	}
	ref := render(false)
	reps := 1
	if !vp.Symbolic() {
		reps = 30
	}
	all := true
	for r := 0; r < reps; r++ {
		all = all && render(true) == ref
	}
	vp.Assert("C15.xgodeps.deterministic", all)
	vp.Assert("C15.xgodeps.present", ref != "<none>")
}

// D3: the overload tables built from name suffixes do not depend on the arrival order of the items
func VerifH_C15_overloadTables() {
	order := [][]int{{0, 1, 2}, {0, 2, 1}, {1, 0, 2}, {1, 2, 0}, {2, 0, 1}, {2, 1, 0}}[vp.Choose("perm", 6)]
	names := []string{"f__0", "f__1", "f__2"}
	var items []types.Object
	var nameds []*types.Named
	for _, i := range order {
		sig := types.NewSignatureType(nil, nil, nil, nil, nil, false)
		items = append(items, types.NewFunc(token.NoPos, nil, names[i], sig))
		nameds = append(nameds, types.NewNamed(types.NewTypeName(token.NoPos, nil, names[i], nil), types.Typ[types.Int], nil))
	}
	fns := overloadFuncs(3, items)
	nds := overloadNameds(3, nameds)
	ok := len(fns) == 3 && len(nds) == 3
	for i := 0; ok && i < 3; i++ {
		ok = fns[i].Name() == names[i] && nds[i].Obj().Name() == names[i]
	}
	vp.Assert("C15.overloads.order", ok)
}

// ---------------------------------------------------------------------------
// an implicit package reference must not be captured by an identifier declared elsewhere in the
// package or enclosing the reference (parameters, results, locals) — whatever the order of
// declaration and reference.

func verifFakeFmt() *types.Package {
	p := types.NewPackage("fmt", "fmt")
	sig := types.NewSignatureType(nil, nil, nil, nil, nil, false)
	p.Scope().Insert(types.NewFunc(token.NoPos, p, "Println", sig))
	p.MarkComplete()
	return p
}

var verifShadowKinds = []string{"none", "pkgvar", "pkgconst", "pkgtype", "pkgfunc", "param", "result", "local", "rangevar", "tswitchvar", "pkgvarinit"}

func VerifH_C09_shadow() {
	pkg := verifNewPkg()
	fmtPkg := verifFakeFmt()
	println := fmtPkg.Scope().Lookup("Println")
	kind := verifShadowKinds[vp.Choose("kind", len(verifShadowKinds))]
	before := vp.Choose("before", 2) == 1 // package-level declaration made before / after the reference is built
	declare := func() {
		switch kind {
		case "pkgvar":
			pkg.NewVar(token.NoPos, types.Typ[types.Int], "fmt")
		case "pkgconst":
			pkg.NewConstStart(pkg.Types.Scope(), token.NoPos, nil, "fmt").Val(1).EndInit(1)
		case "pkgtype":
			pkg.NewType("fmt").InitType(pkg, types.Typ[types.Int])
		case "pkgfunc":
			pkg.NewFunc(nil, "fmt", nil, nil, false).BodyStart(pkg).End()
		case "pkgvarinit":
			pkg.NewVarStart(token.NoPos, nil, "fmt").Val(1).EndInit(1)
		}
	}
	if before {
		declare()
	}
	var params, results *types.Tuple
	if kind == "param" {
		params = types.NewTuple(pkg.NewParam(token.NoPos, "fmt", types.Typ[types.Int], false))
	}
	if kind == "result" {
		results = types.NewTuple(pkg.NewParam(token.NoPos, "fmt", types.Typ[types.Int], false))
	}
	cb := pkg.NewFunc(nil, "g", params, results, false).BodyStart(pkg)
	if kind == "local" {
		cb.DefineVarStart(token.NoPos, "fmt").Val(1).EndInit(1)
	}
	switch kind {
	case "rangevar":
		cb.ForRange("fmt").Val(verifNonConst("xs", types.NewSlice(types.Typ[types.Int]))).RangeAssignThen(token.NoPos)
		cb.Val(println).Call(0).EndStmt()
		cb.End()
	case "tswitchvar":
		cb.TypeSwitch("fmt").Val(verifNonConst("v", TyEmptyInterface)).TypeAssertThen()
		cb.TypeCase().Typ(types.Typ[types.Int]).Then()
		cb.Val(println).Call(0).EndStmt()
		cb.End()
		cb.End()
	default:
		cb.Val(println).Call(0).EndStmt()
	}
	if kind == "result" {
		cb.Val(1).Return(1)
	}
	cb.End()
	if !before {
		declare()
	}
	decls := pkg.file.getDecls(pkg)
	specs, _ := verifImportSpecs(decls)
	vp.Assert("C09.shadow.imported", len(specs) == 1 && specs[0].path == "fmt")
	if len(specs) != 1 {
		return
	}
	eff := specs[0].name
	if eff == "" {
		eff = "fmt"
	}
	// the identifier used at the reference is the import's name ...
	ref := ""
	for _, d := range decls {
		if fd, ok := d.(*ast.FuncDecl); ok && fd.Name.Name == "g" {
			ast.Inspect(fd.Body, func(n ast.Node) bool {
				if sel, ok := n.(*ast.SelectorExpr); ok {
					if id, ok := sel.X.(*ast.Ident); ok && sel.Sel.Name == "Println" {
						ref = id.Name
					}
				}
				return true
			})
		}
	}
	vp.Assert("C09.shadow.refname", ref == eff)
	// ... and no other declaration visible at the reference has that name
	vp.Fact("kind", vp.Choose("kind", len(verifShadowKinds)))
	vp.Fact("before", verifB2I(before))
	vp.Assert("C09.shadow.notcaptured", kind == "none" || eff != "fmt")
}

// two files with their own import tables; references that are built and then discarded
func VerifH_C09_files() {
	pkg := NewPackage("", "main", &Config{Importer: verifImporter{}, DefaultGoFile: "a.go", HandleErr: func(err error) { panic(err) }})
	fmtPkg := verifFakeFmt()
	println := fmtPkg.Scope().Lookup("Println")
	other := types.NewPackage("x/fmt", "fmt")
	other.Scope().Insert(types.NewFunc(token.NoPos, other, "Printf", types.NewSignatureType(nil, nil, nil, nil, nil, false)))
	other.MarkComplete()
	printf := other.Scope().Lookup("Printf")
	// file a.go
	inA := vp.Choose("a.ref", 4) // 0 none, 1 fmt, 2 x/fmt, 3 both
	discardA := vp.Choose("a.discard", 2) == 1
	cb := pkg.NewFunc(nil, "fa", nil, nil, false).BodyStart(pkg)
	if inA == 1 || inA == 3 {
		cb.Val(println).Call(0).EndStmt()
	}
	if inA == 2 || inA == 3 {
		cb.Val(printf).Call(0).EndStmt()
	}
	if discardA { // a reference built and dropped again
		cb.Val(printf)
		cb.ResetStmt()
	}
	cb.End()
	// file b.go
	old, err := pkg.SetCurFile("b.go", true)
	if err != nil {
		panic(err)
	}
	inB := vp.Choose("b.ref", 4)
	cb = pkg.NewFunc(nil, "fb", nil, nil, false).BodyStart(pkg)
	if inB == 1 || inB == 3 {
		cb.Val(println).Call(0).EndStmt()
	}
	if inB == 2 || inB == 3 {
		cb.Val(printf).Call(0).EndStmt()
	}
	cb.End()
	pkg.RestoreCurFile(old)
	check := func(fname string, ref int, fnName string) {
		f, _ := pkg.File(fname)
		decls := f.getDecls(pkg)
		specs, _ := verifImportSpecs(decls)
		want := 0
		if ref == 1 || ref == 3 {
			want++
		}
		if ref == 2 || ref == 3 {
			want++
		}
		vp.Assert("C09.files.exact", len(specs) == want)
		names := map[string]string{}
		for _, s := range specs {
			eff := s.name
			if eff == "" {
				eff = "fmt"
			}
			names[s.path] = eff
		}
		if want == 2 {
			vp.Assert("C09.files.unique", names["fmt"] != names["x/fmt"])
		}
		// every qualified reference in the function uses the name of the import of its package
		for _, d := range decls {
			if fd, ok := d.(*ast.FuncDecl); ok && fd.Name.Name == fnName {
				ast.Inspect(fd.Body, func(n ast.Node) bool {
					if sel, ok := n.(*ast.SelectorExpr); ok {
						if id, ok := sel.X.(*ast.Ident); ok {
							path := "fmt"
							if sel.Sel.Name == "Printf" {
								path = "x/fmt"
							}
							vp.Assert("C09.files.resolves", id.Name == names[path])
						}
					}
					return true
				})
			}
		}
	}
	check("a.go", inA, "fa")
	check("b.go", inB, "fb")
}
