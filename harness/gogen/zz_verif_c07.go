//go:build verif

package gogen

// C07: generic calls. gogen's adapter around go/types' unifier (inferFunc, checkInferArgs, the
// variadic parameter rewriting, partial instantiation through inferFuncType, instanceFunc /
// instanceInferFunc for generic function values passed as arguments, matchFuncCall's
// argument-vs-instantiated-parameter check) is executed from SSA; the unifier itself
// ((*types.Checker).infer) and types.Instantiate run natively: they are go/types, the arbiter.
//
//   - C07_calls: calls of 15 generic functions with 0-3 explicit type arguments and arguments from a
//     pool of 28 expressions are written as Go source, checked by go/types, built through the front
//     end, and compared: verdict, reported result type, instantiations recorded by go/types for the
//     emitted code vs. for the source. Concrete per path (enumeration by forking).
//   - C07_constargs: single-type-parameter functions called with typed variables and untyped
//     constants of symbolic value: the verdict must be Go's (explicit or inferred type argument,
//     default type of the largest untyped kind, constraint satisfaction, representability of every
//     constant in the inferred type). The values are solver variables.

import (
	"bytes"
	"go/ast"
	"go/constant"
	"go/importer"
	"go/parser"
	"go/token"
	"go/types"
	"strings"

	"github.com/goplus/gogen/internal/vp"
)

const verifC07Header = `package p

type Num interface{ ~int | ~int8 | ~float64 }
type MyInts []int
type MyMap map[string]int
type List[T any] struct{ v T }

func (l List[T]) Get() T { return l.v }

func Id[T any](x T) T                           { return x }
func Two[T any](a, b T) T                       { return a }
func MkMap[K comparable, V any](k K, v V) map[K]V { return nil }
func Sum[T Num](xs ...T) T                      { var z T; return z }
func Map[T, U any](xs []T, f func(T) U) []U     { return nil }
func Conv[To, From Num](x From) To              { return To(x) }
func Apply[T any](f func(T) T, x T) T           { return f(x) }
func First[S ~[]E, E any](s S) E                { return s[0] }
func Deref[T any](p *T) T                       { return *p }
func Recv[T any](c <-chan T) T                  { return <-c }
func Zero[T any]() T                            { var z T; return z }
func MkList[T any](v T) List[T]                 { return List[T]{v} }
func LLen[T any](l List[T]) int                 { return 0 }
func Cmp[T comparable](a, b T) bool             { return a == b }
func Keys[M ~map[K]V, K comparable, V any](m M) []K { return nil }

var (
	i   int
	i8  int8
	f64 float64
	str string
	si  []int
	mi  MyInts
	pi  *int
	ci  chan int
	rci <-chan int
	fii func(int) int
	fis func(int) string
	li  List[int]
	ls  List[string]
	msi map[string]int
	mm  MyMap
	e   any
	sf  []float64
)
`

type verifC07Fn struct {
	name     string
	arity    int // -1: variadic (0-3 arguments)
	explicit []string
}

var verifC07Fns = []verifC07Fn{
	{"Id", 1, []string{"", "[int]", "[int8]", "[string]", "[float64]", "[MyInts]", "[any]", "[int, string]", "[List[int]]"}},
	{"Two", 2, []string{"", "[int]", "[int8]", "[float64]", "[any]"}},
	{"MkMap", 2, []string{"", "[string]", "[int]", "[string, int]", "[[]int, int]", "[int, int, int]", "[any]"}},
	{"Sum", -1, []string{"", "[int]", "[int8]", "[float64]", "[string]"}},
	{"Map", 2, []string{"", "[int]", "[int, string]", "[float64]", "[int8, int]"}},
	{"Conv", 1, []string{"", "[int]", "[int8]", "[int8, float64]", "[float64, int]", "[string]", "[int8, string]"}},
	{"Apply", 2, []string{"", "[int]", "[string]", "[int8]"}},
	{"First", 1, []string{"", "[[]int]", "[MyInts]", "[[]int, int]", "[MyInts, int8]", "[int]", "[[]float64]"}},
	{"Deref", 1, []string{"", "[int]", "[*int]", "[string]"}},
	{"Recv", 1, []string{"", "[int]", "[chan int]", "[string]"}},
	{"Zero", 0, []string{"", "[int]", "[MyInts]", "[int, int]", "[List[string]]", "[map[string]int]"}},
	{"MkList", 1, []string{"", "[int]", "[int8]", "[any]", "[List[int]]"}},
	{"LLen", 1, []string{"", "[int]", "[string]", "[List[int]]"}},
	{"Cmp", 2, []string{"", "[int]", "[any]", "[[]int]", "[float64]", "[MyInts]"}},
	{"Keys", 1, []string{"", "[MyMap]", "[map[string]int]", "[MyMap, string]", "[MyMap, string, int]", "[MyMap, int]", "[map[string]int, string, int8]"}},
}

var verifC07Args = []string{"i", "i8", "f64", "str", "si", "mi", "pi", "ci", "rci", "fii", "fis", "li", "ls", "msi", "mm", "e", "sf",
	"nil", "1", "2.5", "'c'", `"s"`, "300", "Id", "Id[int]", "Zero[int8]()", "func(x int) int { return x }", "MkList(i8)"}

// a subset for the second argument of binary functions and for variadic positions
var verifC07Args2 = []string{"i", "i8", "str", "1", "2.5", "fii", "fis", "Id", "f64", "300", "Id[int]", "func(x int) int { return x }", "si", "nil", "e"}

// variadic positions
var verifC07Args3 = []string{"i", "i8", "f64", "1", "2.5", "si"}

// verifC07Check type-checks src and returns the instantiations recorded inside function fn
// ("Name[targs] type" per generic identifier, in source order) and the type of the expression
// initialising r in `r := <expr>` of that function.
func verifC07Check(src, fn string) (pkg *types.Package, file *ast.File, ok bool, msg string, insts []string, rtyp types.Type, rnode ast.Expr) {
	fset := token.NewFileSet()
	file, err := parser.ParseFile(fset, "p.go", src, 0)
	if err != nil {
		return nil, nil, false, "parse: " + err.Error(), nil, nil, nil
	}
	info := &types.Info{Types: map[ast.Expr]types.TypeAndValue{}, Instances: map[*ast.Ident]types.Instance{}}
	first := ""
	tc := types.Config{Importer: importer.Default(), Error: func(err error) {
		m := err.Error()
		if strings.Contains(m, "declared and not used") {
			return
		}
		if first == "" {
			first = m
		}
	}}
	pkg, _ = tc.Check("example.com/p", fset, []*ast.File{file}, info)
	d := verifFindFunc(file, fn)
	if d == nil || d.Body == nil {
		return pkg, file, first == "", first, nil, nil, nil
	}
	ast.Inspect(d.Body, func(n ast.Node) bool {
		switch v := n.(type) {
		case *ast.Ident:
			if in, has := info.Instances[v]; has {
				var ts []string
				for k := 0; k < in.TypeArgs.Len(); k++ {
					ts = append(ts, types.TypeString(in.TypeArgs.At(k), nil))
				}
				insts = append(insts, v.Name+"["+strings.Join(ts, ", ")+"] "+types.TypeString(in.Type, nil))
			}
		case *ast.AssignStmt:
			if len(v.Lhs) == 1 && len(v.Rhs) == 1 && v.Tok == token.DEFINE {
				if id, isID := v.Lhs[0].(*ast.Ident); isID && id.Name == "r" {
					rnode = v.Rhs[0]
					if tv, has := info.Types[v.Rhs[0]]; has {
						rtyp = tv.Type
					}
				}
			}
		}
		return true
	})
	return pkg, file, first == "", first, insts, rtyp, rnode
}

func VerifH_C07_calls() {
	fi := vp.Choose("fn", len(verifC07Fns))
	f := verifC07Fns[fi]
	ex := f.explicit[vp.Choose("explicit", len(f.explicit))]
	var args []string
	switch {
	case f.arity == -1:
		n := vp.Choose("nargs", 4)
		for k := 0; k < n; k++ {
			pool := verifC07Args3
			args = append(args, pool[vp.Choose("arg"+string(rune('0'+k)), len(pool))])
		}
	case f.arity >= 1:
		args = append(args, verifC07Args[vp.Choose("arg0", len(verifC07Args))])
		if f.arity == 2 {
			pool := verifC07Args2
			if !vp.Thorough() {
				pool = pool[:8]
			}
			args = append(args, pool[vp.Choose("arg1", len(pool))])
		}
	}
	ell := false
	if f.arity == -1 && len(args) == 1 && vp.Choose("ellipsis", 2) == 1 {
		ell = true
	}
	call := f.name + ex + "(" + strings.Join(args, ", ")
	if ell {
		call += "..."
	}
	call += ")"
	vp.Observe("call", call)
	src := verifC07Header + "\nfunc body() {\nr := " + call + "\n_ = r\n}\n"
	upkg, file, goOK, gomsg, wantInst, wantT, rnode := verifC07Check(src, "body")
	vp.Assume(file != nil && upkg != nil)
	vp.Observe("gotypes", gomsg)
	orig := verifFindFunc(file, "body")
	conf := &Config{Types: upkg, Importer: verifImporter{}, HandleErr: func(err error) { panic(err) }}
	pkg := NewPackage("", "p", conf)
	fe := &verifFE{pkg: pkg, labels: map[string]*Label{}}
	var gotT types.Type
	fe.onExpr = func(e ast.Expr, el *Element) {
		if e == rnode && el != nil {
			gotT = el.Type
		}
	}
	var out bytes.Buffer
	class, perr := vp.TryVal(func() {
		fe.cb = pkg.NewFunc(nil, "body2", nil, nil, false).BodyStart(pkg)
		fe.stmts(orig.Body.List)
		fe.cb.End()
		if err := WriteTo(&out, pkg); err != nil {
			panic(err)
		}
	})
	vp.Assert("C07.calls.nofault", class != vp.FaultPanic)
	if _, feLimit := perr.(verifErr); feLimit {
		vp.Note("front end cannot express this call: " + string(perr.(verifErr)))
		return
	}
	accepted := class == vp.NoPanic
	if !accepted {
	}
	vp.Fact("fn", fi)
	vp.Fact("goaccepts", verifB2I(goOK))
	vp.Fact("funcvaluearg", verifB2I(verifC07HasFuncValueArg(args)))
	vp.Fact("nilarg", verifB2I(verifC07Has(args, "nil")))
	vp.Fact("explicit", verifB2I(ex != ""))
	if goOK {
		vp.Assert("C07.calls.complete", accepted)
	} else {
		vp.Assert("C07.calls.sound", !accepted)
	}
	vp.Cover("ALL.c07.calls.accepted", accepted && goOK)
	vp.Cover("ALL.c07.calls.rejected", !accepted && !goOK)
	if !accepted || !goOK {
		return
	}
	if gotT != nil && wantT != nil {
		vp.Observe("got", types.TypeString(gotT, nil))
		vp.Observe("want", types.TypeString(wantT, nil))
		vp.Assert("C07.calls.resulttype", types.Identical(gotT, wantT))
	}
	text := out.String()
	vp.Observe("text", text)
	k := strings.Index(text, "func body2")
	vp.Assert("C07.calls.emitted", k >= 0)
	if k < 0 {
		return
	}
	_, _, ok2, msg2, gotInst, gotT2, _ := verifC07Check(src+"\n"+text[k:], "body2")
	vp.Observe("recheck", msg2)
	vp.Assert("C07.calls.emitted.typechecks", ok2)
	if !ok2 {
		return
	}
	vp.Observe("instances.want", strings.Join(wantInst, "; "))
	vp.Observe("instances.got", strings.Join(gotInst, "; "))
	vp.Assert("C07.calls.instances", strings.Join(wantInst, "; ") == strings.Join(gotInst, "; "))
	if gotT2 != nil && wantT != nil {
		vp.Assert("C07.calls.emitted.resulttype", types.TypeString(gotT2, nil) == types.TypeString(wantT, nil))
	}
}

func verifC07Has(args []string, s string) bool {
	for _, a := range args {
		if a == s {
			return true
		}
	}
	return false
}

func verifC07HasFuncValueArg(args []string) bool {
	return verifC07Has(args, "Id") || verifC07Has(args, "Id[int]")
}

// ---------------------------------------------------------------------------
// symbolic constants as arguments of generic calls

const verifC07ConstExtra = `
type Num7 interface{ ~int | ~int8 | ~uint8 | ~float32 | ~float64 }

func Id7[T any](x T) T            { return x }
func Two7[T any](a, b T) T        { return a }
func Sum7[T Num7](xs ...T) T      { var z T; return z }
func Cmp7[T comparable](a, b T) bool { return a == b }
`

var verifC07Kinds = []types.BasicKind{types.Int8, types.Uint8, types.Int, types.Uint64, types.Float32, types.Float64, types.String, types.Bool, types.Complex128}
var verifC07TypedArgs = []types.BasicKind{types.Int8, types.Int, types.Float64, types.String}
var verifC07Untyped = []types.BasicKind{types.UntypedInt, types.UntypedRune, types.UntypedFloat, types.UntypedComplex, types.UntypedString, types.UntypedBool}

type verifC07Arg struct {
	typed bool
	kind  types.BasicKind
	op    verifOperand
}

func verifC07InNum7(k types.BasicKind) bool {
	return k == types.Int || k == types.Int8 || k == types.Uint8 || k == types.Float32 || k == types.Float64
}

func verifC07UntypedRank(k types.BasicKind) int {
	switch k {
	case types.UntypedInt:
		return 1
	case types.UntypedRune:
		return 2
	case types.UntypedFloat:
		return 3
	case types.UntypedComplex:
		return 4
	}
	return 0
}

func VerifH_C07_constargs() {
	upkg, _ := verifUniverse(verifC07ConstExtra)
	conf := &Config{Types: upkg, Importer: verifImporter{}, HandleErr: func(err error) { panic(err) }}
	pkg := NewPackage("", "u", conf)
	fns := []string{"Id7", "Two7", "Sum7", "Cmp7"}
	fi := vp.Choose("fn", len(fns))
	fname := fns[fi]
	nargs := 1
	switch fname {
	case "Two7", "Cmp7":
		nargs = 2
	case "Sum7":
		nargs = 1 + vp.Choose("nargs", 3)
	}
	// explicit type argument?
	expl := types.Invalid
	if e := vp.Choose("explicit", 1+len(verifC07Kinds)); e > 0 {
		expl = verifC07Kinds[e-1]
	}
	args := make([]verifC07Arg, nargs)
	nconst := 0
	for k := range args {
		nm := "a" + string(rune('0'+k))
		// at most two constant arguments; the others are typed variables
		if nconst < 2 && vp.Choose(nm+".const", 2) == 1 {
			uk := verifC07Untyped[vp.Choose(nm+".uk", len(verifC07Untyped))]
			args[k] = verifC07Arg{typed: false, kind: uk, op: verifOperandOfKind(nm, uk)}
			nconst++
		} else {
			args[k] = verifC07Arg{typed: true, kind: verifC07TypedArgs[vp.Choose(nm+".tk", len(verifC07TypedArgs))]}
		}
	}
	vp.Assume(nconst > 0)

	// --- the Go rules (reference)
	T := expl
	want := true
	if T == types.Invalid {
		for _, a := range args { // typed arguments fix T; they must agree
			if a.typed {
				if T == types.Invalid {
					T = a.kind
				} else if T != a.kind {
					want = false
				}
			}
		}
	}
	if want && T == types.Invalid { // only untyped constants: default type of the largest kind
		maxRank, other, otherKind := 0, false, types.Invalid
		for _, a := range args {
			if r := verifC07UntypedRank(a.kind); r > 0 {
				if r > maxRank {
					maxRank = r
				}
			} else {
				if other && otherKind != a.kind {
					want = false
				}
				other, otherKind = true, a.kind
			}
		}
		switch {
		case other && maxRank > 0:
			want = false // mismatched kinds (numeric with bool/string)
		case other && otherKind == types.UntypedString:
			T = types.String
		case other:
			T = types.Bool
		case maxRank == 1:
			T = types.Int
		case maxRank == 2:
			T = types.Int32
		case maxRank == 3:
			T = types.Float64
		default:
			T = types.Complex128
		}
	}
	if want { // constraint
		switch fname {
		case "Sum7":
			want = verifC07InNum7(T)
		}
	}
	reprAll := true
	if want { // every argument assignable to T
		for _, a := range args {
			if a.typed {
				if a.kind != T {
					want = false
				}
			} else if !verifReprIn(a.op.val, types.Typ[T]) {
				reprAll = false
			}
		}
	}
	want = want && reprAll

	// --- the builder
	cb := pkg.NewFunc(nil, "zz_f", nil, nil, false).BodyStart(pkg)
	var srcArgs []string
	class, perr := vp.TryVal(func() {
		cb.Val(upkg.Scope().Lookup(fname))
		if expl != types.Invalid {
			cb.Typ(types.Typ[expl]).Index(1, 0)
		}
		for k, a := range args {
			if a.typed {
				cb.Val(upkg.Scope().Lookup("t_" + types.Typ[a.kind].Name()))
			} else {
				cb.InternalStack().Push(verifElem("zz_c"+string(rune('0'+k)), a.op))
			}
		}
		cb.Call(nargs)
	})
	for _, a := range args {
		if a.typed {
			srcArgs = append(srcArgs, "t_"+types.Typ[a.kind].Name())
		} else if !vp.Symbolic() {
			srcArgs = append(srcArgs, verifOperandSrc(a.op))
		}
	}
	vp.Assert("C07.constargs.nofault", class != vp.FaultPanic)
	accepted := class == vp.NoPanic
	_ = perr
	vp.Fact("fn", fi)
	vp.Fact("T", int(T))
	vp.Fact("explicit", verifB2I(expl != types.Invalid))
	vp.FactBool("reprAll", reprAll)
	cplxToReal, tFloat := false, T == types.Float32 || T == types.Float64 || T == types.Complex128
	for _, a := range args {
		if !a.typed && a.kind == types.UntypedComplex && T != types.Complex128 {
			cplxToReal = true
		}
	}
	vp.FactBool("cplxToReal", cplxToReal)
	vp.FactBool("tFloat", tFloat)
	// cross-check the reference with go/types on the replay input
	if !vp.Symbolic() {
		call := fname
		if expl != types.Invalid {
			call += "[" + types.Typ[expl].Name() + "]"
		}
		call += "(" + strings.Join(srcArgs, ", ") + ")"
		ok, msg := verifGoAccepts(verifC07ConstExtra + "\nvar t_zz_r = " + call + "\n")
		vp.Oracle("C07.constargs.reference", ok == want, call+": reference "+verifBoolStr(want)+", go/types: "+msg)
	}
	if want {
		vp.Assert("C07.constargs.complete", accepted)
	} else {
		vp.Assert("C07.constargs.sound", !accepted)
	}
	vp.Cover("ALL.c07.constargs.accepted", accepted && want)
	vp.Cover("ALL.c07.constargs.rejected", !accepted && !want)
	if accepted && want {
		res := cb.Get(-1).Type
		wantT := types.Type(types.Typ[T])
		if fname == "Cmp7" {
			wantT = types.Typ[types.Bool]
		}
		vp.Observe("result", types.TypeString(res, nil))
		vp.Assert("C07.constargs.resulttype", types.Identical(res, wantT))
		vp.Assert("C07.constargs.notconst", cb.Get(-1).CVal == nil)
	}
}

func verifBoolStr(b bool) string {
	if b {
		return "accept"
	}
	return "reject"
}

var _ = constant.MakeBool
