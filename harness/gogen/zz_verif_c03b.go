//go:build verif

package gogen

// C03: range variable types, type-switch binding types; C11: iterator-function and enumerator shapes.

import (
	"go/ast"
	"go/importer"
	"go/parser"
	"go/token"
	"go/types"
	"strings"

	"github.com/goplus/gogen/internal/vp"
)

// verifGoRange asks go/types for the types of k and v in `for k, v := range <name>` over the universe.
func verifGoRange(name string, nvars int) (ok bool, kt, vt types.Type) {
	vars := "k"
	if nvars == 2 {
		vars = "k, v"
	}
	src := verifUniverseSrc + "\nfunc zz_range() {\n\tfor " + vars + " := range " + name + " {\n\t\t_ = k\n"
	if nvars == 2 {
		src += "\t\t_ = v\n"
	}
	src += "\t}\n}\n"
	fset := token.NewFileSet()
	f, err := parser.ParseFile(fset, "u.go", src, 0)
	if err != nil {
		return false, nil, nil
	}
	bad := false
	info := &types.Info{Defs: map[*ast.Ident]types.Object{}}
	conf := types.Config{Importer: importer.Default(), Error: func(error) { bad = true }}
	conf.Check("example.com/u", fset, []*ast.File{f}, info)
	if bad {
		return false, nil, nil
	}
	for id, obj := range info.Defs {
		if obj == nil {
			continue
		}
		if id.Name == "k" {
			kt = obj.Type()
		}
		if id.Name == "v" {
			vt = obj.Type()
		}
	}
	return true, kt, vt
}

func VerifH_C03_rangevars() {
	_, all := verifUniverse("")
	pkg := verifNewPkg()
	cb := pkg.NewFunc(nil, "f", nil, nil, false).BodyStart(pkg)
	T := verifPickType("T", all)
	_, isNamed := T.typ.(*types.Named)
	_, isAlias := T.typ.(*types.Alias)
	isInt := false
	if b, ok := T.typ.Underlying().(*types.Basic); ok {
		isInt = b.Info()&types.IsInteger != 0
	}
	vp.Fact("namedint", verifB2I(isNamed && isInt))
	vp.Fact("aliasint", verifB2I(isAlias && isInt))
	nvars := 1 + vp.Choose("nvars", 2)
	names := []string{"k", "v"}[:nvars]
	class := vp.Try(func() {
		cb.ForRange(names...).Val(&Element{Val: &ast.Ident{Name: T.name}, Type: T.typ}).RangeAssignThen(token.NoPos)
	})
	vp.Assert("C17.rangevars.nofault", class != vp.FaultPanic)
	if class == vp.FaultPanic {
		return
	}
	ok, kt, vt := verifGoRange(T.name, nvars)
	accepted := class == vp.NoPanic
	if !ok {
		vp.Assert("C01.rangevars.sound", !accepted)
		return
	}
	vp.Assert("C02.rangevars.complete", accepted)
	if !accepted {
		return
	}
	k := cb.Scope().Lookup("k")
	vp.Assert("C03.rangevars.key.declared", k != nil)
	if k != nil && kt != nil {
		vp.Assert("C03.rangevars.key.type", verifSameType(k.Type(), kt))
	}
	if nvars == 2 {
		v := cb.Scope().Lookup("v")
		if v != nil && vt != nil {
			vp.Observe("v.got", v.Type())
			vp.Observe("v.want", vt)
		}
		vp.Assert("C03.rangevars.value.declared", v != nil)
		if v != nil && vt != nil {
			vp.Assert("C03.rangevars.value.type", verifSameType(v.Type(), vt))
		}
	}
}

// type-switch binding: the case's type for a single-type case, the operand's type otherwise
func VerifH_C03_typeswitch() {
	pkg := verifNewPkg()
	cb := pkg.NewFunc(nil, "f", nil, nil, false).BodyStart(pkg)
	ifaces := []types.Type{TyEmptyInterface, types.Universe.Lookup("error").Type()}
	it := ifaces[vp.Choose("iface", 2)]
	caseTypes := []types.Type{types.Typ[types.Int], types.NewPointer(types.Typ[types.String]), verifErrImpl(pkg)}
	form := vp.Choose("form", 4) // 0 one type, 1 two types, 2 default, 3 nil case? (one type again with another type)
	_, namedIface := it.(*types.Named)
	vp.Fact("namediface", verifB2I(namedIface))
	vp.Fact("form", form)
	cb.TypeSwitch("t").Val(verifNonConst("x", it)).TypeAssertThen()
	var want types.Type
	class := vp.Try(func() {
		switch form {
		case 0:
			ct := caseTypes[vp.Choose("ct", 3)]
			cb.TypeCase().Typ(ct).Then()
			want = ct
		case 1:
			cb.TypeCase().Typ(caseTypes[2]).Typ(types.NewPointer(caseTypes[2])).Then()
			want = it
		case 2:
			cb.TypeDefaultThen()
			want = it
		case 3:
			cb.TypeCase().Val(nil).Then()
			want = it
		}
	})
	vp.Assert("C17.typeswitch.nofault", class != vp.FaultPanic)
	if class != vp.NoPanic {
		return // an impossible case (type does not implement the interface) is rejected
	}
	t := cb.Scope().Lookup("t")
	vp.Assert("C03.typeswitch.bound", t != nil)
	if t != nil {
		vp.Observe("t.got", t.Type())
		vp.Observe("t.want", want)
		vp.Assert("C03.typeswitch.type", types.Identical(t.Type(), want))
	}
}

func verifErrImpl(pkg *Package) types.Type {
	n := types.NewNamed(types.NewTypeName(token.NoPos, pkg.Types, "E", nil), types.NewStruct(nil, nil), nil)
	sig := types.NewSignatureType(types.NewVar(token.NoPos, pkg.Types, "e", n), nil, nil, nil, types.NewTuple(types.NewParam(token.NoPos, pkg.Types, "", types.Typ[types.String])), false)
	n.AddMethod(types.NewFunc(token.NoPos, pkg.Types, "Error", sig))
	return n
}

// iterator functions (Go 1.23 range-over-func) and user-defined enumerators: key/value types
func VerifH_C11_iterators() {
	pkg := verifNewPkg()
	tint, tstr, tbool := types.Typ[types.Int], types.Typ[types.String], types.Typ[types.Bool]
	tuple := func(ts ...types.Type) *types.Tuple {
		var vs []*types.Var
		for _, t := range ts {
			vs = append(vs, types.NewParam(token.NoPos, pkg.Types, "", t))
		}
		return types.NewTuple(vs...)
	}
	nyield := vp.Choose("nyield", 4) // parameters of yield: 0,1,2,3
	yret := vp.Choose("yret", 3)     // yield returns: bool / int / nothing
	nres := vp.Choose("nres", 2)     // the iterator itself returns nothing / a value
	nparam := 1 + vp.Choose("extraparam", 2)
	yparams := []types.Type{tint, tstr, tbool}[:nyield]
	var yres *types.Tuple
	switch yret {
	case 0:
		yres = tuple(tbool)
	case 1:
		yres = tuple(tint)
	}
	yield := types.NewSignatureType(nil, nil, nil, tuple(yparams...), yres, false)
	ps := []types.Type{yield}
	if nparam == 2 {
		ps = append(ps, tint)
	}
	var res *types.Tuple
	if nres == 1 {
		res = tuple(tint)
	}
	sig := types.NewSignatureType(nil, nil, nil, tuple(ps...), res, false)
	got := checkIteratorFunc(sig)
	valid := yret == 0 && nres == 0 && nparam == 1 && nyield <= 2
	if !valid {
		vp.Assert("C11.iter.rejected", got == nil)
		return
	}
	vp.Assert("C11.iter.accepted", got != nil && len(got) == 2)
	if got == nil || len(got) != 2 {
		return
	}
	switch nyield {
	case 0:
		vp.Assert("C11.iter.types0", got[0] == nil && got[1] == nil)
	case 1:
		vp.Assert("C11.iter.types1", got[0] == tint && got[1] == nil)
	case 2:
		vp.Assert("C11.iter.types2", got[0] == tint && got[1] == tstr)
	}
}

// XGo_Enum enumerators: Next-style (elem, ok) / (key, elem, ok)
func VerifH_C11_enumerators() {
	pkg := verifNewPkg()
	cb := pkg.NewFunc(nil, "f", nil, nil, false).BodyStart(pkg)
	tint, tstr, tbool := types.Typ[types.Int], types.Typ[types.String], types.Typ[types.Bool]
	mk := func(name string) *types.Named {
		return types.NewNamed(types.NewTypeName(token.NoPos, pkg.Types, name, nil), types.NewStruct(nil, nil), nil)
	}
	addMethod := func(t *types.Named, name string, params, results []types.Type) {
		tup := func(ts []types.Type) *types.Tuple {
			var vs []*types.Var
			for _, x := range ts {
				vs = append(vs, types.NewParam(token.NoPos, pkg.Types, "", x))
			}
			return types.NewTuple(vs...)
		}
		sig := types.NewSignatureType(types.NewVar(token.NoPos, pkg.Types, "r", types.NewPointer(t)), nil, nil, tup(params), tup(results), false)
		t.AddMethod(types.NewFunc(token.NoPos, pkg.Types, name, sig))
	}
	iter := mk("Iter")
	nret := vp.Choose("nextrets", 4) // Next returns 1..4 values
	lastBool := vp.Choose("lastbool", 2) == 1
	rets := []types.Type{tstr, tint, tstr, tint}[:nret+1]
	if lastBool {
		rets[nret] = tbool
	}
	addMethod(iter, "Next", nil, rets)
	coll := mk("Coll")
	enumParams := vp.Choose("enumparams", 2)
	var eps []types.Type
	if enumParams == 1 {
		eps = []types.Type{tint}
	}
	addMethod(coll, "XGo_Enum", eps, []types.Type{types.NewPointer(iter)})
	fr := &forRangeStmt{}
	var kv []types.Type
	var ok bool
	class := vp.Try(func() { kv, ok = fr.checkUdt(cb, coll) })
	vp.Assert("C17.enum.nofault", class != vp.FaultPanic)
	if class != vp.NoPanic {
		return
	}
	n := nret + 1
	valid := enumParams == 0 && lastBool && (n == 2 || n == 3)
	if !valid {
		vp.Assert("C11.enum.rejected", !ok)
		return
	}
	vp.Assert("C11.enum.accepted", ok && len(kv) == 2)
	if !ok || len(kv) != 2 {
		return
	}
	if n == 2 {
		vp.Assert("C11.enum.elem", kv[0] == tstr && kv[1] == nil && fr.udt == 2)
	} else {
		vp.Assert("C11.enum.keyelem", kv[0] == tstr && kv[1] == tint && fr.udt == 3)
	}
}

// verifSameType: identical, or — for named types of a re-checked universe — equal qualified spelling.
func verifSameType(a, b types.Type) bool {
	return types.Identical(a, b) || types.TypeString(a, nil) == types.TypeString(b, nil)
}

// ---------------------------------------------------------------------------
// C03 over whole programs: every value sub-expression of the round-trip programs is built through
// the front end and the type the builder reports for it is compared with the type go/types
// recorded for the same node of the original source (the builder works on go/types' own objects
// here, so identity of types is decidable with types.Identical).
func VerifH_C03_roundtrip() {
	g := &verifGen{}
	tmpl := vp.Choose("stmt", verifNStmt)
	g.focus = 1 + vp.Choose("focus", 14)
	body := g.stmtWith(tmpl, 2)
	vp.Assume(g.focus <= g.n)
	vp.Observe("body", body)
	src := verifRTHeader + "\nfunc body() {\n" + body + "\nb = 7\n}\n"
	fset := token.NewFileSet()
	file, err := parser.ParseFile(fset, "p.go", src, 0)
	vp.Assume(err == nil)
	info := &types.Info{Types: map[ast.Expr]types.TypeAndValue{}}
	bad := false
	tc := types.Config{Importer: importer.Default(), Error: func(error) { bad = true }}
	upkg, _ := tc.Check("example.com/p", fset, []*ast.File{file}, info)
	vp.Assume(!bad)
	orig := verifFindFunc(file, "body")
	conf := &Config{Types: upkg, Importer: verifImporter{}, HandleErr: func(err error) { panic(err) }}
	pkg := NewPackage("", "p", conf)
	fe := &verifFE{pkg: pkg, labels: map[string]*Label{}}
	nchecked, nbad, nlogical := 0, 0, 0
	fe.onExpr = func(e ast.Expr, el *Element) {
		tv, ok := info.Types[e]
		if !ok || tv.IsVoid() || tv.IsType() || tv.IsBuiltin() || tv.Type == nil || el == nil || el.Type == nil {
			return
		}
		got := el.Type
		if _, isTuple := tv.Type.(*types.Tuple); isTuple {
			return // multi-value calls are compared through the variables they initialise
		}
		nchecked++
		if types.Identical(got, tv.Type) {
			return
		}
		if b, isB := got.(*types.Basic); isB && b.Info()&types.IsUntyped != 0 {
			// an untyped operand: go/types records the type it was converted to by its context
			if tv.Value != nil || b.Kind() == types.UntypedNil || types.Identical(types.Default(got), tv.Type) {
				return
			}
			if gb, isGB := tv.Type.Underlying().(*types.Basic); isGB && b.Kind() == types.UntypedBool && gb.Info()&types.IsBoolean != 0 {
				return
			}
			if gb, isGB := tv.Type.Underlying().(*types.Basic); isGB && gb.Info()&types.IsNumeric != 0 && b.Info()&types.IsNumeric != 0 {
				return // non-constant shift of an untyped constant: typed by its context
			}
		}
		if gb, isGB := got.(*types.Basic); isGB && gb.Kind() == types.Bool {
			if wb, isWB := tv.Type.(*types.Basic); isWB && wb.Kind() == types.UntypedBool {
				nlogical++ // !, && and || over comparisons give bool where Go keeps untyped bool (C03-F7)
				return
			}
		}
		nbad++
		vp.Observe("expr", verifExprText(&Element{Val: e}))
		vp.Observe("got", types.TypeString(got, nil))
		vp.Observe("want", types.TypeString(tv.Type, nil))
	}
	class := vp.Try(func() {
		fe.cb = pkg.NewFunc(nil, "body2", nil, nil, false).BodyStart(pkg)
		fe.declareLabels(orig.Body.List)
		fe.stmts(orig.Body.List)
		fe.cb.End()
	})
	if class != vp.NoPanic {
		return // acceptance is C02_roundtrip's subject
	}
	vp.Fact("runeconst", verifB2I(strings.Contains(body, "'c'")))
	vp.Assert("C03.roundtrip.exprtypes", nbad == 0)
	vp.Fact("logicalmismatch", verifB2I(nlogical > 0))
	vp.Assert("C03.roundtrip.logical", nlogical == 0)
	vp.Cover("ALL.c03rt.checked", nchecked > 0)
	// inferred declarations: every variable the body declares has the type go/types gave it
	// (compared after the build through the emitted text is C02's job; here: scope objects)
}
