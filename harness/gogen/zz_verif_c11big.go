//go:build verif

package gogen

// C11: big-number literals evaluate to exactly the written value. UntypedBigInt / UntypedBigRat
// emit math/big constructor expressions; a small evaluator computes the value the emitted Go
// denotes (checking that integer literals passed to NewInt/NewRat fit int64) and compares it with
// the value that was written, at the boundaries of the int64/uint64 fast paths.

import (
	"go/ast"
	"go/parser"
	"go/token"
	"go/types"
	"math/big"
	"strconv"

	"github.com/goplus/gogen/internal/vp"
)

const verifBigSrc = `package big

type Int struct{ v int }
type Rat struct{ v int }

type UntypedBigint *Int
type UntypedBigrat *Rat
type UntypedBigfloat *Rat

func NewInt(x int64) *Int                                { return nil }
func NewRat(a, b int64) *Rat                             { return nil }
func (z *Int) SetString(s string, base int) (*Int, bool) { return z, true }
func (z *Rat) SetFrac(a, b *Int) *Rat                    { return z }
`

func verifBigLandmarks() []*big.Int {
	p := func(n uint) *big.Int { return new(big.Int).Lsh(big.NewInt(1), n) }
	add := func(a *big.Int, d int64) *big.Int { return new(big.Int).Add(a, big.NewInt(d)) }
	neg := func(a *big.Int) *big.Int { return new(big.Int).Neg(a) }
	ten30, _ := new(big.Int).SetString("1000000000000000000000000000001", 10)
	return []*big.Int{big.NewInt(1), big.NewInt(2), big.NewInt(3), big.NewInt(7), add(p(63), -1), p(63), add(p(63), 1), add(p(64), -1), p(64), add(p(64), 1), ten30,
		big.NewInt(0), big.NewInt(-1), neg(p(63)), neg(add(p(63), 1)), neg(p(64)), neg(ten30)}
}

// verifEvalBigInt evaluates big.NewInt(lit) or func() *big.Int { v, _ := new(big.Int).SetString("…", 10); return v }().
func verifEvalBigInt(e ast.Expr) (*big.Int, bool) {
	call, ok := e.(*ast.CallExpr)
	if !ok {
		return nil, false
	}
	if sel, ok := call.Fun.(*ast.SelectorExpr); ok && sel.Sel.Name == "NewInt" && len(call.Args) == 1 {
		return verifEvalInt64Lit(call.Args[0])
	}
	if fl, ok := call.Fun.(*ast.FuncLit); ok && len(call.Args) == 0 {
		var val *big.Int
		found := false
		ast.Inspect(fl.Body, func(n ast.Node) bool {
			if c, ok := n.(*ast.CallExpr); ok {
				if s, ok := c.Fun.(*ast.SelectorExpr); ok && s.Sel.Name == "SetString" && len(c.Args) == 2 {
					if lit, ok := c.Args[0].(*ast.BasicLit); ok && lit.Kind == token.STRING {
						str, _ := strconv.Unquote(lit.Value)
						base, okb := c.Args[1].(*ast.BasicLit)
						if okb && base.Value == "10" {
							val, found = new(big.Int).SetString(str, 10)
						}
					}
				}
			}
			return true
		})
		return val, found
	}
	return nil, false
}

// an integer literal (possibly written with a sign, as the builder does) that must fit int64
func verifEvalInt64Lit(e ast.Expr) (*big.Int, bool) {
	text := ""
	switch v := e.(type) {
	case *ast.BasicLit:
		text = v.Value
	case *ast.UnaryExpr:
		if lit, ok := v.X.(*ast.BasicLit); ok && v.Op == token.SUB {
			text = "-" + lit.Value
		}
	}
	val, ok := new(big.Int).SetString(text, 10)
	if !ok || !val.IsInt64() {
		return nil, false
	}
	return val, true
}

func VerifH_C11_bignum() {
	fset := token.NewFileSet()
	f, err := parser.ParseFile(fset, "big.go", verifBigSrc, 0)
	vp.Assume(err == nil)
	tc := types.Config{}
	bigPkg, err := tc.Check("math/big", fset, []*ast.File{f}, nil)
	vp.Assume(err == nil)
	named := func(n string) *types.Named { return bigPkg.Scope().Lookup(n).Type().(*types.Named) }
	conf := &Config{Importer: verifMapImporter{"math/big": bigPkg}, HandleErr: func(err error) { panic(err) }}
	// big-number literals need the big-number types configured (without them the builder has no
	// type to give the literal; the unconfigured case is the no-big-types variant below)
	configured := vp.Choose("configured", 2) == 1
	if configured {
		conf.UntypedBigInt, conf.UntypedBigRat, conf.UntypedBigFloat = named("UntypedBigint"), named("UntypedBigrat"), named("UntypedBigfloat")
	}
	pkg := NewPackage("", "main", conf)
	cb := pkg.NewFunc(nil, "f", nil, nil, false).BodyStart(pkg)
	marks := verifBigLandmarks()
	isRat := vp.Choose("rat", 2) == 1
	num := marks[vp.Choose("num", len(marks))]
	var want *big.Rat
	var ret *Element
	class := vp.Try(func() {
		if isRat {
			den := marks[vp.Choose("den", 11)] // positive denominators
			want = new(big.Rat).SetFrac(num, den)
			cb.UntypedBigRat(want)
		} else {
			want = new(big.Rat).SetInt(num)
			cb.UntypedBigInt(num)
		}
		ret = cb.Get(-1)
	})
	vp.Fact("configured", verifB2I(configured))
	vp.Assert("C17.c11.bignum.nofault", class != vp.FaultPanic)
	if !configured {
		return // without big-number types only crash-freedom is claimed
	}
	vp.Assert("C11.bignum.accepted", class == vp.NoPanic)
	if class != vp.NoPanic {
		return
	}
	text := verifExprText(ret)
	vp.Observe("text", text)
	back, perr := parser.ParseExpr(text)
	vp.Assert("C11.bignum.parses", perr == nil)
	if perr != nil {
		return
	}
	var got *big.Rat
	if !isRat {
		if v, ok := verifEvalBigInt(back); ok {
			got = new(big.Rat).SetInt(v)
		}
	} else if call, ok := back.(*ast.CallExpr); ok && len(call.Args) == 2 {
		if sel, ok := call.Fun.(*ast.SelectorExpr); ok {
			switch sel.Sel.Name {
			case "NewRat":
				a, oka := verifEvalInt64Lit(call.Args[0])
				b, okb := verifEvalInt64Lit(call.Args[1])
				if oka && okb && b.Sign() != 0 {
					got = new(big.Rat).SetFrac(a, b)
				}
			case "SetFrac":
				a, oka := verifEvalBigInt(call.Args[0])
				b, okb := verifEvalBigInt(call.Args[1])
				if oka && okb && b.Sign() != 0 {
					got = new(big.Rat).SetFrac(a, b)
				}
			}
		}
	}
	vp.Assert("C11.bignum.evaluable", got != nil) // a known constructor form with in-range literals
	if got == nil {
		return
	}
	vp.Assert("C04,C11.bignum.value", got.Cmp(want) == 0)
	// the value the builder itself carries
	if ret.CVal != nil {
		vp.Assert("C04.bignum.cval", ret.CVal.ExactString() == want.RatString() || ret.CVal.ExactString() == want.Num().String())
	}
}
