//go:build verif

package gogen

// A closed type universe shared by C05/C13/C14: declared in Go source and type-checked by
// go/types itself (natively, also under the engine), so every type is exactly what Go makes of it.

import (
	"go/ast"
	"go/constant"
	"go/importer"
	"go/parser"
	"go/token"
	"go/types"
	"sort"
	"strings"

	"github.com/goplus/gogen/internal/vp"
)

const verifUniverseSrc = `package u

import "unsafe"

type (
	NInt   int
	NInt8  int8
	NUint8 uint8
	NF32   float32
	NStr   string
	NBool  bool
	AInt   = int
	AStr   = NStr
	APtr   = *int
	AAny   = interface{}
	NPtr   *int
	NSl    []int
	NArr   [2]int
	NMap   map[string]int
	NChan  chan int
	NFn    func(int) int
	NSt    struct{ X int }
	NIf    interface{ M() }
	NErr   error
	NAny   interface{}
	Impl   struct{}
	NC128  complex128
)

func (Impl) M()          {}
func (Impl) Error() string { return "" }

var (
	t_bool       bool
	t_int        int
	t_int8       int8
	t_int16      int16
	t_int32      int32
	t_int64      int64
	t_uint       uint
	t_uint8      uint8
	t_uint16     uint16
	t_uint32     uint32
	t_uint64     uint64
	t_uintptr    uintptr
	t_float32    float32
	t_float64    float64
	t_complex64  complex64
	t_complex128 complex128
	t_string     string
	t_nint       NInt
	t_nint8      NInt8
	t_nuint8     NUint8
	t_nf32       NF32
	t_nstr       NStr
	t_nbool      NBool
	t_aint       AInt
	t_astr       AStr
	t_aptr       APtr
	t_aany       AAny
	t_nptr       NPtr
	t_nsl        NSl
	t_narr       NArr
	t_nmap       NMap
	t_nchan      NChan
	t_nfn        NFn
	t_nst        NSt
	t_nif        NIf
	t_nerr       NErr
	t_nany       NAny
	t_impl       Impl
	t_nc128      NC128
	t_pint       *int
	t_pnint      *NInt
	t_pimpl      *Impl
	t_slint      []int
	t_slint2     []int
	t_slnint     []NInt
	t_arr2       [2]int
	t_arr3       [3]int
	t_mapsi      map[string]int
	t_chan       chan int
	t_rchan      <-chan int
	t_schan      chan<- int
	t_fn         func(int) int
	t_fn2        func(int) int
	t_st         struct{ X int }
	t_st2        struct{ X int }
	t_sty        struct{ Y int }
	t_any        interface{}
	t_err        error
	t_ifm        interface{ M() }
	t_unsafe     unsafe.Pointer
)
`

// subset used by the quick tier (indices by variable name)
var verifQuickTypes = []string{"t_bool", "t_int", "t_int8", "t_uint8", "t_uint64", "t_float32", "t_float64", "t_complex64", "t_string",
	"t_nint", "t_nint8", "t_nf32", "t_nstr", "t_aint", "t_aptr", "t_aany", "t_nptr", "t_nsl", "t_nst", "t_nif", "t_impl", "t_pint", "t_pimpl",
	"t_slint", "t_slint2", "t_arr2", "t_mapsi", "t_chan", "t_rchan", "t_fn", "t_st", "t_st2", "t_any", "t_err", "t_ifm"}

type verifType struct {
	name string
	typ  types.Type
}

// verifUniverse type-checks the universe source and returns its variables' types.
func verifUniverse(extra string) (*types.Package, []verifType) {
	fset := token.NewFileSet()
	f, err := parser.ParseFile(fset, "u.go", verifUniverseSrc+extra, 0)
	if err != nil {
		panic(err)
	}
	conf := types.Config{Importer: importer.Default(), Error: func(error) {}}
	pkg, _ := conf.Check("example.com/u", fset, []*ast.File{f}, nil)
	var out []verifType
	names := pkg.Scope().Names()
	sort.Strings(names)
	for _, n := range names {
		if v, ok := pkg.Scope().Lookup(n).(*types.Var); ok && strings.HasPrefix(n, "t_") {
			out = append(out, verifType{n, v.Type()})
		}
	}
	return pkg, out
}

// verifPickAnyType chooses from the whole universe in both tiers.
func verifPickAnyType(name string, all []verifType) verifType {
	i := vp.Choose(name, len(all))
	vp.Fact(name+".id", i)
	return all[i]
}

func verifPickType(name string, all []verifType) verifType {
	if vp.Thorough() {
		i := vp.Choose(name, len(all))
		vp.Fact(name+".id", i)
		return all[i]
	}
	want := verifQuickTypes[vp.Choose(name, len(verifQuickTypes))]
	for i, t := range all {
		if t.name == want {
			vp.Fact(name+".id", i) // stable across tiers: index in the full universe
			return t
		}
	}
	panic("unknown type " + want)
}

// verifGoAccepts reports whether go/types accepts the universe plus the given extra declarations.
func verifGoAccepts(extra string) (bool, string) {
	fset := token.NewFileSet()
	f, err := parser.ParseFile(fset, "u.go", verifUniverseSrc+extra, 0)
	if err != nil {
		return false, err.Error()
	}
	first := ""
	conf := types.Config{Importer: importer.Default(), Error: func(e error) {
		if first == "" {
			first = e.Error()
		}
	}}
	conf.Check("example.com/u", fset, []*ast.File{f}, nil)
	return first == "", first
}

// spec: representability of a constant in a basic type (integer ranges; float rounding thresholds)
func verifReprIn(v constant.Value, b *types.Basic) bool {
	k := b.Kind()
	info := b.Info()
	switch {
	case info&types.IsInteger != 0:
		return verifRepresentable(v, k)
	case info&types.IsFloat != 0:
		if v.Kind() == constant.Complex {
			if constant.Sign(constant.Imag(v)) != 0 {
				return false
			}
			v = constant.Real(v)
		}
		if v.Kind() != constant.Int && v.Kind() != constant.Float {
			return false
		}
		return verifFloatFits(v, k == types.Float32)
	case info&types.IsComplex != 0:
		if v.Kind() != constant.Int && v.Kind() != constant.Float && v.Kind() != constant.Complex {
			return false
		}
		small := k == types.Complex64
		return verifFloatFits(constant.Real(v), small) && verifFloatFits(constant.Imag(v), small)
	case info&types.IsBoolean != 0:
		return v.Kind() == constant.Bool
	case info&types.IsString != 0:
		return v.Kind() == constant.String
	}
	return false
}

// |v| < 2^128 - 2^103 (float32) resp. 2^1024 - 2^970 (float64): beyond, rounding yields infinity
func verifFloatFits(v constant.Value, f32 bool) bool {
	lim := constant.BinaryOp(verifPow2(1024), token.SUB, verifPow2(970))
	if f32 {
		lim = constant.BinaryOp(verifPow2(128), token.SUB, verifPow2(103))
	}
	return constant.Compare(v, token.LSS, lim) && constant.Compare(v, token.GTR, verifNeg(lim))
}

// targets of constant assignment: every basic kind plus representative named/composite/interface types
var verifConstTargets = []string{"t_bool", "t_int", "t_int8", "t_int16", "t_int32", "t_int64", "t_uint", "t_uint8", "t_uint16", "t_uint32", "t_uint64", "t_uintptr",
	"t_float32", "t_float64", "t_complex64", "t_complex128", "t_string", "t_nint8", "t_nuint8", "t_nf32", "t_nstr", "t_nbool", "t_aint", "t_aptr", "t_aany", "t_pint", "t_slint", "t_mapsi", "t_chan", "t_fn", "t_st", "t_any", "t_err", "t_ifm", "t_unsafe"}

func verifPickNamed(name string, all []verifType, names []string) verifType {
	if vp.Thorough() {
		i := vp.Choose(name, len(all))
		vp.Fact(name+".id", i)
		return all[i]
	}
	want := names[vp.Choose(name, len(names))]
	for i, t := range all {
		if t.name == want {
			vp.Fact(name+".id", i)
			return t
		}
	}
	panic("unknown type " + want)
}
