//go:build verif

package gogen

// C12 (comment clause): a function body of 1-3 statements of 8 kinds, each preceded by 0-2 labels
// and by one of four comment actions (none / one-shot group / sticky group / clear), block
// statements following the client protocol (backup at the start, restore before End) with an
// optional comment on their inner statement. A reference model of the pending-comment rule gives
// the expected attachment; the written text is parsed with comments and every group must sit
// directly before the statement the model names, exactly once per commented statement.

import (
	"bytes"
	"go/ast"
	"go/parser"
	"go/token"
	"go/types"
	"sort"
	"strings"

	"github.com/goplus/gogen/internal/vp"
)

func verifCommentGroup(text string, multi bool) *ast.CommentGroup {
	g := &ast.CommentGroup{List: []*ast.Comment{{Text: "\n// " + text}}}
	if multi {
		g.List = append(g.List, &ast.Comment{Text: "// " + text + " more"})
	}
	return g
}

// real statements of a parsed list: labels unwrapped, empty statements skipped
func verifRealStmts(list []ast.Stmt) (out []ast.Stmt) {
	for _, s := range list {
		for {
			l, ok := s.(*ast.LabeledStmt)
			if !ok {
				break
			}
			s = l.Stmt
		}
		if _, empty := s.(*ast.EmptyStmt); empty {
			continue
		}
		out = append(out, s)
	}
	return
}

func VerifH_C12_comments2() {
	pkg := verifNewPkg()
	cb := pkg.NewFunc(nil, "f", nil, nil, false).BodyStart(pkg)
	tint := types.Typ[types.Int]
	cb.NewVar(tint, "x0", "x1", "x2") // statement 0 of the body (prologue, never commented)
	n := 1 + vp.Choose("nstmt", 3)
	multi := n == 1 && vp.Choose("multi", 2) == 1
	// one statement ranges over everything; the others over a small set (thorough: two statements, both free)
	focus := 0
	if n > 1 {
		focus = vp.Choose("focus", n)
	}
	free := func(k int) bool { return k == focus || (vp.Thorough() && n == 2) }
	var labels []*Label
	// reference model
	var pending string
	pendingOnce := false
	expect := map[string]string{} // statement id ("k" or "k.inner") -> comment text
	attach := func(id string) {
		if pending != "" {
			expect[id] = pending
			if pendingOnce {
				pending = ""
			}
		}
	}
	setC := func(name string, once bool) {
		cb.SetComments(verifCommentGroup(name, multi), once)
		pending, pendingOnce = name, once
	}
	for k := 0; k < n; k++ {
		ks := string(rune('0' + k))
		action, nlab := 0, 0
		if free(k) {
			action = vp.Choose("cm"+ks, 4)
			nlab = vp.Choose("lb"+ks, 3)
		} else {
			action = 2 * vp.Choose("cm"+ks, 2) // none or sticky
		}
		before := nlab > 0 && vp.Choose("cmfirst"+ks, 2) == 1 // comment set before the labels
		doAction := func() {
			switch action {
			case 1:
				setC("c"+ks, true)
			case 2:
				setC("c"+ks, false)
			case 3:
				cb.SetComments(nil, false)
				pending = ""
			}
		}
		if before || nlab == 0 {
			doAction()
		}
		for j := 0; j < nlab; j++ {
			l := cb.NewLabel(token.NoPos, token.NoPos, "L"+ks+string(rune('a'+j)))
			cb.Label(l)
			labels = append(labels, l)
		}
		if !before && nlab > 0 {
			doAction()
		}
		x := cb.Scope().Lookup("x" + ks)
		kind := 0
		if free(k) {
			kind = vp.Choose("st"+ks, 8)
		} else if n == 2 {
			kind = 6 * vp.Choose("st"+ks, 2) // expression statement or if
		}
		inner := func() { // the block constructs' inner statement, with the client protocol around it
			if vp.Choose("inner"+ks, 2) == 1 {
				cb.SetComments(verifCommentGroup("i"+ks, multi), true)
				expect[ks+".inner"] = "i" + ks
			} else {
				cb.SetComments(nil, false)
			}
			cb.VarRef(x).Val(7).Assign(1).EndStmt()
		}
		switch kind {
		case 0: // s<k>
			cb.Val(verifNonConst("s"+ks, tint)).EndStmt()
		case 1: // x<k>++
			cb.VarRef(x).IncDec(token.INC).EndStmt()
		case 2: // x<k> = 5
			cb.VarRef(x).Val(5).Assign(1).EndStmt()
		case 3: // var v<k> int
			cb.NewVar(tint, "v"+ks)
		case 4: // w<k> := x<k>
			cb.DefineVarStart(token.NoPos, "w"+ks).Val(x).EndInit(1)
		case 5: // { x<k> = 7 }
			c, o := cb.BackupComments()
			cb.Block()
			inner()
			cb.SetComments(c, o)
			cb.End()
		case 6: // if x<k> > 0 { x<k> = 7 }
			c, o := cb.BackupComments()
			cb.If().Val(x).Val(0).BinaryOp(token.GTR).Then()
			inner()
			cb.SetComments(c, o)
			cb.End()
		case 7: // for x<k> < 3 { x<k> = 7 }
			c, o := cb.BackupComments()
			cb.For().Val(x).Val(3).BinaryOp(token.LSS).Then()
			inner()
			cb.SetComments(c, o)
			cb.End()
		}
		attach(ks)
	}
	cb.SetComments(nil, false)
	for _, l := range labels {
		cb.Goto(l)
	}
	cb.End()
	var buf bytes.Buffer
	err := pkg.WriteTo(&buf)
	vp.Assert("C12.comments2.written", err == nil)
	if err != nil {
		return
	}
	text := buf.String()
	vp.Observe("text", text)
	fset := token.NewFileSet()
	f, perr := parser.ParseFile(fset, "f.go", text, parser.ParseComments)
	vp.Assert("C12.comments2.parses", perr == nil)
	if perr != nil {
		return
	}
	fd := verifFindFunc(f, "f")
	vp.Assert("C12.comments2.emitted", fd != nil && fd.Body != nil)
	if fd == nil || fd.Body == nil {
		return
	}
	real := verifRealStmts(fd.Body.List)
	vp.Assert("C12.comments2.stmts", len(real) == 1+n+len(labels))
	if len(real) < 1+n {
		return
	}
	// start line of every statement that may carry a comment
	lineOf := map[int]string{}
	for k := 0; k < n; k++ {
		ks := string(rune('0' + k))
		s := real[1+k]
		lineOf[fset.Position(s.Pos()).Line] = ks
		var body *ast.BlockStmt
		switch v := s.(type) {
		case *ast.BlockStmt:
			body = v
		case *ast.IfStmt:
			body = v.Body
		case *ast.ForStmt:
			body = v.Body
		}
		if body != nil {
			if in := verifRealStmts(body.List); len(in) > 0 {
				lineOf[fset.Position(in[0].Pos()).Line] = ks + ".inner"
			}
		}
	}
	got := map[string]string{}
	stray := 0
	for _, g := range f.Comments {
		id, ok := lineOf[fset.Position(g.End()).Line+1]
		txt := strings.TrimPrefix(g.List[0].Text, "// ")
		wantLines := 1
		if multi {
			wantLines = 2
		}
		if !ok || len(g.List) != wantLines || got[id] != "" {
			stray++
			continue
		}
		got[id] = txt
	}
	render := func(m map[string]string) string {
		var ks []string
		for k, v := range m {
			ks = append(ks, k+"="+v)
		}
		sort.Strings(ks)
		return strings.Join(ks, " ")
	}
	vp.Observe("expect", render(expect))
	vp.Observe("got", render(got))
	vp.Assert("C12.comments2.nostray", stray == 0) // no group anywhere but directly before a statement, none twice
	vp.Assert("C12.comments2.attached", render(expect) == render(got))
	vp.Cover("ALL.comments2.some", len(expect) > 0)
}
