//go:build verif

package gogen

// C14: synthesised zero values are the zero value of exactly the requested type.
// The type universe is enumerated (no symbolic scalar is involved); go/types itself judges
// the emitted expression inside the universe's own package.

import (
	"bytes"
	"fmt"
	"go/ast"
	"go/importer"
	"go/parser"
	"go/token"
	"go/types"
	"strings"

	"github.com/goplus/gogen/internal/go/format"
	"github.com/goplus/gogen/internal/vp"
)

func verifExprText(e *Element) string {
	var buf bytes.Buffer
	if err := format.Node(&buf, token.NewFileSet(), e.Val); err != nil {
		return "<unprintable>"
	}
	return buf.String()
}

// verifGoTypeOf type-checks `var zz_x = <expr>` in the universe and returns the inferred type.
func verifGoTypeOf(expr string) (types.Type, bool) {
	pkg, _ := verifUniverse("\nvar t_zz_x = " + expr + "\n")
	if v, ok := pkg.Scope().Lookup("t_zz_x").(*types.Var); ok && v.Type() != types.Typ[types.Invalid] {
		return v.Type(), true
	}
	return nil, false
}

func VerifH_C14_zero() {
	upkg, all := verifUniverse("")
	conf := &Config{Types: upkg, Importer: verifImporter{}, HandleErr: func(err error) { panic(err) }}
	pkg := NewPackage("", "u", conf)
	T := verifPickAnyType("T", all)
	var e *Element
	how := vp.Choose("how", 2)
	class := vp.Try(func() {
		if how == 0 {
			e = pkg.Zero(T.typ)
		} else {
			e = pkg.CB().ZeroLit(T.typ).InternalStack().Pop()
		}
	})
	vp.Assert("C17.c14.nofault", class == vp.NoPanic)
	if class != vp.NoPanic {
		return
	}
	vp.Assert("C14.zero.reported", types.Identical(e.Type, T.typ))
	text := verifExprText(e)
	vp.Observe("text", text)
	ok, _ := verifGoAccepts(fmt.Sprintf("\nvar _ = func() { %s = %s }\n", T.name, text))
	vp.Assert("C14.zero.assignable", ok)
	under := 0
	if b, isB := T.typ.Underlying().(*types.Basic); isB {
		under = int(b.Kind())
	}
	vp.Fact("under", under)
	_, isNamed := T.typ.(*types.Named)
	_, isAlias := T.typ.(*types.Alias)
	vp.Fact("named", verifB2I(isNamed || isAlias))
	if ok {
		// inferred declaration: x := <expr> must have exactly type T (nil has no inferred type)
		if it, typed := verifGoTypeOf(text); typed {
			vp.Assert("C14.zero.inferred", types.Identical(it, T.typ))
		} else {
			vp.Assert("C14.zero.untypednil", text == "nil")
		}
	}
	if e.CVal != nil {
		zero := false
		switch {
		case isBoolType(e):
			zero = !constantBool(e)
		default:
			zero = verifIsZeroConst(e)
		}
		vp.Assert("C14.zero.cval", zero)
	}
}

// Users of Zero: error-return padding (ReturnErr) and omitted optional arguments. The emitted
// function must type-check in the universe for every universe type.
func VerifH_C14_contexts() {
	upkg, all := verifUniverse("")
	conf := &Config{Types: upkg, Importer: verifImporter{}, HandleErr: func(err error) { panic(err) }}
	pkg := NewPackage("", "u", conf)
	T := verifPickAnyType("T", all)
	ctx := vp.Choose("ctx", 2)
	var out bytes.Buffer
	class := vp.Try(func() {
		switch ctx {
		case 0: // func zz_f() (T, T, error) { return <zero>, <zero>, zz_err }
			res := types.NewTuple(types.NewParam(token.NoPos, upkg, "", T.typ), types.NewParam(token.NoPos, upkg, "", T.typ), types.NewParam(token.NoPos, upkg, "", TyError))
			cb := pkg.NewFunc(nil, "zz_f", nil, res, false).BodyStart(pkg)
			cb.Val(verifNonConst("t_err", TyError)).ReturnErr(false).End()
		case 1: // func zz_g(a int, __xgo_optional_b T) {}; func zz_f() { zz_g(1) }
			pa := types.NewParam(token.NoPos, upkg, "a", types.Typ[types.Int])
			pb := pkg.NewParam(token.NoPos, "b", T.typ, true)
			g := pkg.NewFunc(nil, "zz_g", types.NewTuple(pa, pb), nil, false)
			g.BodyStart(pkg).End()
			cb := pkg.NewFunc(nil, "zz_f", nil, nil, false).BodyStart(pkg)
			cb.Val(g.Obj()).Val(1).Call(1).EndStmt().End()
		}
		if err := WriteTo(&out, pkg); err != nil {
			panic(err)
		}
	})
	vp.Assert("C17.c14.contexts.nofault", class != vp.FaultPanic)
	vp.Assert("C14.contexts.accepted", class == vp.NoPanic)
	if class != vp.NoPanic {
		return
	}
	text := out.String()
	vp.Observe("text", text)
	i := strings.Index(text, "func ")
	vp.Assert("C14.contexts.emitted", i >= 0)
	if i < 0 {
		return
	}
	ok, msg := verifGoAccepts("\n" + text[i:] + "\n")
	vp.Observe("gotypes", msg)
	vp.Assert("C01,C14.contexts.typechecks", ok)
}

// Instantiated generic types: the zero value of G[args] must mention the type arguments, not the
// type parameters of the generic declaration; checked directly and through ReturnErr padding.
const verifGenericZeroExtra = verifGenericExtra + `
type G4[T any] [2]T
type G5[T any] struct{ A, B T }
type G6[T any] *T
type G7[T any] int
`

func VerifH_C14_generics() {
	upkg, _ := verifUniverse(verifGenericZeroExtra)
	conf := &Config{Types: upkg, Importer: verifImporter{}, HandleErr: func(err error) { panic(err) }}
	pkg := NewPackage("", "u", conf)
	args := []types.Type{types.Typ[types.Int], types.Typ[types.String], upkg.Scope().Lookup("NSt").Type(), types.NewSlice(types.Typ[types.Bool])}
	gens := []string{"G1", "G2", "G3", "G4", "G5", "G6", "G7"}
	gname := gens[vp.Choose("generic", len(gens))]
	g := upkg.Scope().Lookup(gname).Type().(*types.Named)
	var targs []types.Type
	for i := 0; i < g.TypeParams().Len(); i++ {
		k := len(args)
		if gname == "G2" && i == 0 {
			k = 2 // comparable key
		}
		targs = append(targs, args[vp.Choose("a"+string(rune('0'+i)), k)])
	}
	T, err := types.Instantiate(nil, g, targs, true)
	vp.Assume(err == nil)
	how := vp.Choose("how", 3)
	var text string
	var e *Element
	class := vp.Try(func() {
		switch how {
		case 0:
			e = pkg.Zero(T)
			text = "var t_zz_g " + verifExprText(&Element{Val: TypeAST(pkg, T)}) + " = " + verifExprText(e)
		case 1:
			e = pkg.CB().ZeroLit(T).InternalStack().Pop()
			text = "var t_zz_g " + verifExprText(&Element{Val: TypeAST(pkg, T)}) + " = " + verifExprText(e)
		case 2: // error-return padding
			res := types.NewTuple(types.NewParam(token.NoPos, upkg, "", T), types.NewParam(token.NoPos, upkg, "", TyError))
			cb := pkg.NewFunc(nil, "zz_f", nil, res, false).BodyStart(pkg)
			cb.Val(verifNonConst("t_err", TyError)).ReturnErr(false).End()
			var out bytes.Buffer
			if err := WriteTo(&out, pkg); err != nil {
				panic(err)
			}
			s := out.String()
			text = s[strings.Index(s, "func "):]
		}
	})
	vp.Assert("C17.c14.generics.nofault", class != vp.FaultPanic)
	vp.Assert("C14.generics.accepted", class == vp.NoPanic)
	if class != vp.NoPanic {
		return
	}
	vp.Observe("text", text)
	if e != nil {
		vp.Assert("C14.generics.reported", types.Identical(e.Type, T))
	}
	fset := token.NewFileSet()
	f, perr := parser.ParseFile(fset, "u.go", verifUniverseSrc+verifGenericZeroExtra+"\n"+text+"\n", 0)
	ok := perr == nil
	if ok {
		bad := false
		tc := types.Config{Importer: importer.Default(), Error: func(error) { bad = true }}
		tc.Check("example.com/u", fset, []*ast.File{f}, nil)
		ok = !bad
	}
	vp.Assert("C01,C14.generics.typechecks", ok)
}

// Zero-argument conversions T(): the zero value of T, for every universe type and for named types
// whose package declares a T_Cast function (none of whose candidates takes zero arguments).
const verifCastExtra = `
type NCast struct{ X int }

func NCast_Cast(x int) NCast { return NCast{x} }

type NCast2 int

func NCast2_Cast(x string) NCast2 { return 0 }

var (
	t_ncast  NCast
	t_ncast2 NCast2
)
`

func VerifH_C14_zeroconv() {
	upkg, all := verifUniverse(verifCastExtra)
	conf := &Config{Types: upkg, Importer: verifImporter{}, HandleErr: func(err error) { panic(err) }}
	pkg := NewPackage("", "u", conf)
	T := verifPickAnyType("T", all)
	cb := pkg.NewFunc(nil, "zz_f", nil, nil, false).BodyStart(pkg)
	var e *Element
	class := vp.Try(func() {
		cb.Typ(T.typ).Call(0)
		e = cb.Get(-1)
	})
	vp.Assert("C17.c14.zeroconv.nofault", class != vp.FaultPanic)
	_, isIface := T.typ.Underlying().(*types.Interface)
	vp.Fact("iface", verifB2I(isIface))
	vp.Assert("C14.zeroconv.accepted", class == vp.NoPanic)
	if class != vp.NoPanic {
		return
	}
	text := verifExprText(e)
	vp.Observe("text", text)
	vp.Assert("C14.zeroconv.reported", types.Identical(e.Type, T.typ))
	ok, _ := verifGoAccepts(verifCastExtra + fmt.Sprintf("\nvar _ = func() { %s = %s }\n", T.name, text))
	vp.Assert("C14.zeroconv.assignable", ok)
}
