//go:build verif

package gogen

// C02 (declarations): whole-file round trip. A generated Go file of package-level type, const, var,
// func and method declarations is compiled by the front end into builder operations on an empty
// package, written out, parsed back and compared declaration by declaration (canonical trees).

import (
	"bytes"
	"go/ast"
	"go/parser"
	"go/token"
	"go/types"
	"strconv"
	"strings"

	"github.com/goplus/gogen/internal/vp"
)

// type expressions beyond the basic forms of verifFE.typ
func (fe *verifFE) typX(e ast.Expr) types.Type {
	switch v := e.(type) {
	case *ast.StructType:
		var flds []*types.Var
		var tags []string
		for _, f := range v.Fields.List {
			t := fe.typX(f.Type)
			tag := ""
			if f.Tag != nil {
				tag, _ = strconv.Unquote(f.Tag.Value)
			}
			if len(f.Names) == 0 { // embedded
				name := ""
				switch x := f.Type.(type) {
				case *ast.Ident:
					name = x.Name
				case *ast.StarExpr:
					name = x.X.(*ast.Ident).Name
				}
				flds = append(flds, types.NewField(token.NoPos, fe.pkg.Types, name, t, true))
				tags = append(tags, tag)
			}
			for _, n := range f.Names {
				flds = append(flds, types.NewField(token.NoPos, fe.pkg.Types, n.Name, t, false))
				tags = append(tags, tag)
			}
		}
		return types.NewStruct(flds, tags)
	case *ast.InterfaceType:
		var ms []*types.Func
		var embeds []types.Type
		for _, f := range v.Methods.List {
			if len(f.Names) == 0 {
				embeds = append(embeds, fe.typX(f.Type))
				continue
			}
			sig := fe.sigX(f.Type.(*ast.FuncType))
			ms = append(ms, types.NewFunc(token.NoPos, fe.pkg.Types, f.Names[0].Name, sig))
		}
		it := types.NewInterfaceType(ms, embeds)
		it.Complete()
		return it
	case *ast.StarExpr:
		return types.NewPointer(fe.typX(v.X))
	case *ast.ArrayType:
		if v.Len == nil {
			return types.NewSlice(fe.typX(v.Elt))
		}
		n, _ := strconv.Atoi(v.Len.(*ast.BasicLit).Value)
		return types.NewArray(fe.typX(v.Elt), int64(n))
	case *ast.MapType:
		return types.NewMap(fe.typX(v.Key), fe.typX(v.Value))
	case *ast.ChanType:
		dir := types.SendRecv
		switch v.Dir {
		case ast.SEND:
			dir = types.SendOnly
		case ast.RECV:
			dir = types.RecvOnly
		}
		return types.NewChan(dir, fe.typX(v.Value))
	case *ast.FuncType:
		return fe.sigX(v)
	case *ast.ParenExpr:
		return fe.typX(v.X)
	case *ast.Ident:
		return fe.typ(v)
	case *ast.IndexExpr: // G[T]
		return fe.pkg.Instantiate(fe.typ(v.X), []types.Type{fe.typ(v.Index)})
	case *ast.IndexListExpr:
		var targs []types.Type
		for _, x := range v.Indices {
			targs = append(targs, fe.typ(x))
		}
		return fe.pkg.Instantiate(fe.typ(v.X), targs)
	case *ast.SelectorExpr:
		if id, ok := v.X.(*ast.Ident); ok {
			if ref, isPkg := fe.importRef(id.Name); isPkg {
				return ref.Ref(v.Sel.Name).Type()
			}
		}
	}
	panic(verifErr("front end: unsupported type expression"))
}

func (fe *verifFE) tupleX(fl *ast.FieldList) (*types.Tuple, bool) {
	if fl == nil {
		return nil, false
	}
	var vs []*types.Var
	variadic := false
	for _, fld := range fl.List {
		var t types.Type
		if el, ok := fld.Type.(*ast.Ellipsis); ok {
			t = types.NewSlice(fe.typX(el.Elt))
			variadic = true
		} else {
			t = fe.typX(fld.Type)
		}
		if len(fld.Names) == 0 {
			vs = append(vs, types.NewParam(token.NoPos, fe.pkg.Types, "", t))
		}
		for _, n := range fld.Names {
			vs = append(vs, types.NewParam(token.NoPos, fe.pkg.Types, n.Name, t))
		}
	}
	return types.NewTuple(vs...), variadic
}

func (fe *verifFE) sigX(ft *ast.FuncType) *types.Signature {
	params, variadic := fe.tupleX(ft.Params)
	results, _ := fe.tupleX(ft.Results)
	return types.NewSignatureType(nil, nil, nil, params, results, variadic)
}

// file compiles every declaration of f in source order (types are declared first, as a front end
// that resolves forward references does).
func (fe *verifFE) file(f *ast.File) {
	pkg := fe.pkg
	fe.cb = pkg.CB()
	decls := map[string]*TypeDecl{}
	for _, d := range f.Decls {
		if gd, ok := d.(*ast.GenDecl); ok && gd.Tok == token.TYPE {
			for _, sp := range gd.Specs {
				ts := sp.(*ast.TypeSpec)
				if !ts.Assign.IsValid() {
					decls[ts.Name.Name] = pkg.NewType(ts.Name.Name)
				}
			}
		}
	}
	for _, d := range f.Decls {
		if gd, ok := d.(*ast.GenDecl); ok && gd.Tok == token.TYPE {
			for _, sp := range gd.Specs {
				ts := sp.(*ast.TypeSpec)
				if ts.Assign.IsValid() {
					pkg.AliasType(ts.Name.Name, fe.typX(ts.Type))
				} else {
					decls[ts.Name.Name].InitType(pkg, fe.typX(ts.Type))
				}
			}
		}
	}
	for _, d := range f.Decls {
		switch v := d.(type) {
		case *ast.GenDecl:
			switch v.Tok {
			case token.CONST:
				cdefs := pkg.NewConstDefs(pkg.Types.Scope())
				for i, sp := range v.Specs {
					vs := sp.(*ast.ValueSpec)
					var names []string
					for _, n := range vs.Names {
						names = append(names, n.Name)
					}
					if len(vs.Values) == 0 {
						cdefs.Next(i, token.NoPos, names...)
						continue
					}
					var typ types.Type
					if vs.Type != nil {
						typ = fe.typX(vs.Type)
					}
					values := vs.Values
					cdefs.New(func(cb *CodeBuilder) int {
						old := fe.cb
						fe.cb = cb
						for _, x := range values {
							fe.expr(x, false)
						}
						fe.cb = old
						return len(values)
					}, i, token.NoPos, typ, names...)
				}
			case token.VAR:
				for _, sp := range v.Specs {
					vs := sp.(*ast.ValueSpec)
					var names []string
					for _, n := range vs.Names {
						names = append(names, n.Name)
					}
					var typ types.Type
					if vs.Type != nil {
						typ = fe.typX(vs.Type)
					}
					if len(vs.Values) == 0 {
						pkg.NewVar(token.NoPos, typ, names...)
						continue
					}
					fe.cb = pkg.NewVarStart(token.NoPos, typ, names...)
					for _, x := range vs.Values {
						fe.expr(x, false)
					}
					fe.cb.EndInit(len(vs.Values))
					fe.cb = pkg.CB()
				}
			}
		case *ast.FuncDecl:
			sig := fe.sigX(v.Type)
			var recv *types.Var
			if v.Recv != nil {
				r := v.Recv.List[0]
				name := ""
				if len(r.Names) > 0 {
					name = r.Names[0].Name
				}
				recv = types.NewParam(token.NoPos, pkg.Types, name, fe.typX(r.Type))
			}
			fe.labels = map[string]*Label{}
			fe.cb = pkg.NewFunc(recv, v.Name.Name, sig.Params(), sig.Results(), sig.Variadic()).BodyStart(pkg)
			fe.declareLabels(v.Body.List)
			fe.stmts(v.Body.List)
			fe.cb.End()
			fe.cb = pkg.CB()
		}
	}
}

// verifDeclCanon maps every declared name to the canonical form of its declaration.
func verifDeclCanon(f *ast.File) (map[string]string, []string) {
	out := map[string]string{}
	var order []string
	add := func(k, v string) {
		out[k] = v
		order = append(order, k)
	}
	for _, d := range f.Decls {
		switch v := d.(type) {
		case *ast.FuncDecl:
			k := "func " + v.Name.Name
			if v.Recv != nil {
				k = "method " + vp.Canon(v.Recv.List[0].Type) + "." + v.Name.Name
			}
			add(k, vp.Canon(v))
		case *ast.GenDecl:
			for _, sp := range v.Specs {
				switch s := sp.(type) {
				case *ast.TypeSpec:
					add("type "+s.Name.Name, strconv.FormatBool(s.Assign.IsValid())+vp.Canon(s.Type))
				case *ast.ValueSpec:
					k := v.Tok.String()
					for _, n := range s.Names {
						k += " " + n.Name
					}
					c := ""
					if s.Type != nil {
						c = vp.Canon(s.Type)
					}
					for _, x := range s.Values {
						c += "=" + vp.Canon(x)
					}
					add(k, c)
				}
			}
		}
	}
	return out, order
}

// ---------------------------------------------------------------------------
// the files

func verifDeclFile(k int, g *verifGen) string {
	I := func() string { return g.intExpr(1) }
	alt := func(opts ...string) string { return opts[g.pick(len(opts))] }
	recv := []string{"p Pt", "p *Pt"}
	switch k {
	case 0: // struct type with embedded field and tags, methods on value and pointer receivers
		r := recv[g.pick(2)]
		return `type Base struct{ ID int }
type Pt struct {
	` + alt("Base", "*Base") + `
	X, Y int
	Tag  string ` + alt("`json:\"t\"`", "", "`a:\"1\" b:\"2\"`", "\"q\\\"uote\"") + `
	next *Pt
}

func (` + r + `) Area() int { return p.X*p.Y + ` + "p.ID" + ` }
func (p *Pt) Move(dx int) {
	p.X += dx
	p.next = p
}
func New(x int) *Pt { return &Pt{X: x, Y: ` + alt("x + 1", "-x", "x << 2", `len("s") * x`, "x &^ 3") + `} }
`
	case 1: // interface, implementation, dynamic dispatch, multiple results
		return `type Shape interface {
	Area() float64
	Name() string
}
type Sq struct{ S float64 }

func (s Sq) Area() float64 { return s.S * s.S }
func (s Sq) Name() string   { return "sq" }
func Use(s Shape) (float64, string) {
	return s.Area(), s.Name()
}
func Main() {
	a, n := Use(` + alt("Sq{2}", "Sq{S: 2}", "&Sq{2}", "Shape(Sq{})") + `)
	_, _ = a, n
	` + alt("var sh Shape = Sq{S: 3}", "sh := Shape(Sq{3})", "var sh Shape\n\tsh = &Sq{}") + `
	_ = sh.Area()
}
`
	case 2: // const block with iota, typed constants, expression list repetition
		m3 := alt("= iota", "= \"go\"", "int8 = iota", "= M1")
		use := map[string]string{"= iota": "M4 + 1", "= \"go\"": "len(M4)", "int8 = iota": "int(M4)", "= M1": "0"}[m3]
		return `type Num int

const (
	A ` + alt("Num = iota", "= Num(iota)", "Num = iota + 1", "Num = -iota") + `
	B
	C
)
const (
	K1, K2 = ` + alt("1 << iota", "iota * 10", "iota", "len(\"ab\") + iota") + `, "s"
	K3, K4
)
const (
	M1 ` + alt("uint16 = iota", "= iota", "float32 = 1.5", "Num = 2") + `
	M2
	M3 ` + m3 + `
	M4
	M5, M6 = iota, ` + alt("iota * 2", "\"x\"", "true") + `
	M7, M8
)
const Big = 1 << 40

func F() Num { return A + B*C }
func G() int { return K1 + K3 + len(K2+K4) }
func UseM() int { return ` + use + ` }
`
	case 3: // package-level variables: typed, inferred, multi-value, dependent initialisers
		return `func two() (int, string) { return 2, "b" }

var V1 ` + alt("int = 7", "= 7", "int", "= 3 + 4") + `
var V2, V3 = two()
var V4 = V1 + len(V3)
var V5 []string
var V6, V7 int
var V8 = map[string][]int{"k": []int{1, 2}}
var V9 = func(x int) int { return x + V2 }

func H() int { return V9(V4) + V6 + V7 + len(V5) + len(V8) }
`
	case 4: // named func type, variadic, named results and bare return, alias
		return `type Fn func(int, ...string) ` + alt("(n int, err error)", "(int, error)") + `
type Al = []Fn

func Do(f Fn, xs ...string) (n int, err error) {
	n, err = f(len(xs), xs...)
	if err != nil {
		return
	}
	return n + 1, nil
}
func All(fs Al) (t int) {
	for _, f := range fs {
		n, _ := Do(f, "a", "b")
		t += n
	}
	return
}
`
	case 5: // recursive types, forward references, method values and expressions
		return `type Node struct {
	L, R *Node
	V    int
}
type Tree = *Node

func (n *Node) Sum() int {
	if n == nil {
		return 0
	}
	return n.L.Sum() + n.V + n.R.Sum()
}
func Walk(t Tree, f func(int)) {
	if t != nil {
		Walk(t.L, f)
		f(t.V)
		Walk(t.R, f)
	}
}
func Total(t Tree) int {
	s := 0
	Walk(t, func(v int) { s += v })
	g := t.Sum
	h := (*Node).Sum
	return s + g() + h(t)
}
`
	case 6: // channels, goroutines, select, defer/recover, labels across functions
		return `type Msg struct {
	ID  int
	Ack ` + alt("chan<- bool", "chan bool") + `
}

func Serve(in <-chan Msg, quit chan struct{}) (n int) {
	defer func() {
		if r := recover(); r != nil {
			n = -1
		}
	}()
loop:
	for {
		select {
		case m, ok := <-in:
			if !ok {
				break loop
			}
			m.Ack <- true
			n++
		case <-quit:
			break loop
		}
	}
	return
}
func Start() {
	in := make(chan Msg, 1)
	quit := make(chan struct{})
	go Serve(in, quit)
	close(quit)
}
`
	case 7: // shadowing, closures capturing loop variables, switch with init, expression holes
		return strings.TrimPrefix(verifRTHeader, "package p\n") + `
var x = 1

func Sh(x int) int {
	y := x
	{
		x := y + ` + I() + `
		y = x
	}
	if x := y * 2; x > ` + I() + ` {
		return x
	}
	var fs []func() int
	for i := 0; i < 3; i++ {
		fs = append(fs, func() int { return i + x })
	}
	switch z := fs[0](); {
	case z > 0:
		return z
	}
	return x
}

`
	}
	return ""
}

const verifNDeclFiles = 8

func VerifH_C02_declroundtrip() {
	g := &verifGen{}
	k := vp.Choose("file", verifNDeclFiles)
	g.focus = 1 + vp.Choose("focus", 6)
	body := verifDeclFile(k, g)
	vp.Assume(g.focus == 1 || g.focus <= g.n)
	src := "package p\n\n" + body
	gpkg, file, valid := verifTypeCheck(src)
	vp.Assert("ALL.declroundtrip.generator.valid", valid)
	if !valid {
		return
	}
	conf := &Config{Importer: verifImporter{}, HandleErr: func(err error) { panic(err) }}
	pkg := NewPackage("example.com/p", "p", conf)
	fe := &verifFE{pkg: pkg, labels: map[string]*Label{}}
	var out bytes.Buffer
	balanced := false
	class, perr := vp.TryVal(func() {
		fe.file(file)
		balanced = pkg.CB().InternalStack().Len() == 0 && pkg.CB().Scope() == pkg.Types.Scope() && pkg.CB().Func() == nil
		if err := WriteTo(&out, pkg); err != nil {
			panic(err)
		}
	})
	if class == vp.NoPanic {
		vp.Assert("C16.declroundtrip.balanced", balanced)
		vp.Assert("C16.declroundtrip.stmtbalanced", fe.unbalanced == 0)
	}
	vp.Assert("C17.declroundtrip.nofault", class != vp.FaultPanic)
	vp.Assert("C02.declroundtrip.accepted", class == vp.NoPanic)
	if class != vp.NoPanic {
		vp.Observe("error", verifErrText(perr))
		return
	}
	text := out.String()
	vp.Observe("text", text)
	of, err := parser.ParseFile(token.NewFileSet(), "out.go", text, 0)
	vp.Assert("C01,C12.declroundtrip.parses", err == nil)
	if err != nil {
		return
	}
	want, worder := verifDeclCanon(file)
	got, gorder := verifDeclCanon(of)
	vp.Assert("C02.declroundtrip.samedecls", len(got) == len(want))
	same := true
	for name, c := range want {
		if got[name] != c {
			same = false
			vp.Observe("differs", name)
		}
	}
	vp.Assert("C02,C12.declroundtrip.same", same)
	// order: functions and methods keep their relative order; so do the variables (initialisation
	// order of independent package-level variables is their textual order)
	keep := func(order []string) string {
		var ks []string
		for _, k := range order {
			if strings.HasPrefix(k, "func ") || strings.HasPrefix(k, "method ") || strings.HasPrefix(k, "var ") {
				ks = append(ks, k)
			}
		}
		return strings.Join(ks, ";")
	}
	vp.Assert("C02.declroundtrip.order", keep(gorder) == keep(worder))
	_, _, ok := verifTypeCheck(text)
	vp.Assert("C01.declroundtrip.sound", ok)
	// every package-level object the builder holds has the type (and constant value) go/types
	// gives the corresponding object of the original source
	typesOK, valsOK := true, true
	for _, name := range gpkg.Scope().Names() {
		want := gpkg.Scope().Lookup(name)
		got := pkg.Types.Scope().Lookup(name)
		if got == nil {
			typesOK = false
			vp.Observe("missing", name)
			continue
		}
		if _, isTN := want.(*types.TypeName); isTN {
			continue // type declarations are compared through their syntax above
		}
		if types.TypeString(got.Type(), nil) != types.TypeString(want.Type(), nil) {
			typesOK = false
			vp.Observe("objtype", name+": "+types.TypeString(got.Type(), nil)+" vs "+types.TypeString(want.Type(), nil))
		}
		if wc, isC := want.(*types.Const); isC {
			gc, ok := got.(*types.Const)
			if !ok || !verifConstEqual(gc.Val(), wc.Val()) {
				valsOK = false
				vp.Observe("objval", name)
			}
		}
	}
	vp.Fact("lenconst", verifB2I(strings.Contains(body, "len(\"")))
	vp.Assert("C03.declroundtrip.objtypes", typesOK)
	vp.Assert("C04.declroundtrip.constvalues", valsOK)
	vp.Cover("ALL.declroundtrip.end", true)
}
